import Aqua.Air.Parser
/-!
The checked `str` slices of the lexer model (`Lex.sliceBytes`: `tokenize_until`, `parse_error`,
`try_to_variable_and_lambda`) never fail: every one is taken between two character boundaries.
Hence no text makes the model of `parse` panic (`AquaProps.C23.C23_totality_full`).
-/
namespace Aqua.Air
open Aqua.Gen

namespace Lex

theorem utf8Len_foldl (cs : List Char) (n : Nat) : cs.foldl (fun n c => n + c.utf8Size) n = n + utf8Len cs := by
  induction cs generalizing n with
  | nil => simp [utf8Len]
  | cons c cs ih =>
    simp only [List.foldl_cons, utf8Len]
    rw [ih, ih (0 + c.utf8Size)]; omega

@[simp] theorem utf8Len_nil : utf8Len [] = 0 := rfl
@[simp] theorem utf8Len_cons (c : Char) (cs : List Char) : utf8Len (c :: cs) = c.utf8Size + utf8Len cs := by
  simp only [utf8Len, List.foldl_cons]; rw [utf8Len_foldl]; simp [utf8Len]
@[simp] theorem utf8Len_append (a b : List Char) : utf8Len (a ++ b) = utf8Len a + utf8Len b := by
  induction a with
  | nil => simp
  | cons c a ih => simp [ih]; omega

theorem utf8Size_pos (c : Char) : 0 < c.utf8Size := Char.utf8Size_pos c

theorem splitAtByte_append (a b : List Char) : splitAtByte (a ++ b) (utf8Len a) = some (a, b) := by
  induction a with
  | nil => cases b <;> simp [splitAtByte]
  | cons c a ih =>
    have hpos := utf8Size_pos c
    obtain ⟨n, hn⟩ : ∃ n, utf8Len (c :: a) = n + 1 := ⟨c.utf8Size + utf8Len a - 1, by simp; omega⟩
    rw [hn]
    simp only [List.cons_append, splitAtByte]
    have hle : c.utf8Size ≤ n + 1 := by simp at hn; omega
    have hsub : n + 1 - c.utf8Size = utf8Len a := by simp at hn; omega
    simp [hle, hsub, ih]

/-- a slice between two character boundaries succeeds -/
theorem sliceBytes_append (pre mid post : List Char) :
    sliceBytes (pre ++ mid ++ post) (utf8Len pre) (utf8Len pre + utf8Len mid) = some mid := by
  unfold sliceBytes
  simp only [Nat.le_add_right, ↓reduceIte, List.append_assoc, splitAtByte_append]
  simp [splitAtByte_append]

theorem charIndices_append (a b : List Char) (k : Nat) :
    charIndices (a ++ b) k = charIndices a k ++ charIndices b (k + utf8Len a) := by
  induction a generalizing k with
  | nil => simp [charIndices]
  | cons c a ih =>
    simp only [List.cons_append, charIndices, ih, utf8Len_cons]
    rw [Nat.add_assoc]

@[simp] theorem charIndices_map_snd (cs : List Char) (k : Nat) : (charIndices cs k).map (·.2) = cs := by
  induction cs generalizing k with
  | nil => rfl
  | cons c cs ih => simp [charIndices, ih]

theorem charIndices_length (cs : List Char) (k : Nat) : (charIndices cs k).length = cs.length := by
  induction cs generalizing k with
  | nil => rfl
  | cons c cs ih => simp [charIndices, ih]

theorem charIndices_drop (cs : List Char) (k n : Nat) :
    (charIndices cs k).drop n = charIndices (cs.drop n) (k + utf8Len (cs.take n)) := by
  induction n generalizing cs k with
  | zero => simp
  | succ n ih =>
    cases cs with
    | nil => simp [charIndices]
    | cons c cs =>
      simp only [charIndices, List.drop_succ_cons, ih, List.take_succ_cons, utf8Len_cons]
      rw [Nat.add_assoc]

theorem mem_takeWhile_cond {α} {p : α → Bool} {l : List α} {x : α} (h : x ∈ l.takeWhile p) : p x = true := by
  have := List.all_takeWhile (l := l) (p := p)
  exact List.all_eq_true.mp this x h

theorem mem_of_mem_takeWhile {α} {p : α → Bool} {l : List α} {x : α} (h : x ∈ l.takeWhile p) : x ∈ l :=
  (List.takeWhile_sublist p).subset h

theorem mem_of_mem_dropWhile {α} {p : α → Bool} {l : List α} {x : α} (h : x ∈ l.dropWhile p) : x ∈ l :=
  (List.dropWhile_sublist p).subset h

end Lex

-- ------------------------------------------------------------------------------------------------
-- the lens lexer

namespace LambdaParser

/-- the peek loop over aligned `char_indices`: `end_pos` ends at the offset of the first character not accepted -/
theorem tokenizeUntilLoop_spec (cond : Char → Bool) (cs : List Char) (k : Nat) :
    tokenizeUntilLoop cond k (Lex.charIndices cs k) =
      (k + Lex.utf8Len (cs.takeWhile cond), Lex.charIndices (cs.dropWhile cond) (k + Lex.utf8Len (cs.takeWhile cond))) := by
  induction cs generalizing k with
  | nil => simp [Lex.charIndices, tokenizeUntilLoop]
  | cons c cs ih =>
    simp only [Lex.charIndices, tokenizeUntilLoop]
    by_cases hc : cond c
    · simp only [hc, Bool.not_true, Bool.false_eq_true, ↓reduceIte, List.takeWhile_cons_of_pos, List.dropWhile_cons_of_pos,
        Lex.utf8Len_cons]
      rw [ih (k + c.utf8Size), Nat.add_assoc]
    · simp [hc, Lex.charIndices]

/-- `tokenize_until` never panics: both slices lie on character boundaries -/
theorem tokenizeUntil_ok (cond : Char → Bool) (pre : List Char) (ch : Char) (cs : List Char) :
    tokenizeUntil (pre ++ ch :: cs) (Lex.utf8Len pre) cond (Lex.charIndices cs (Lex.utf8Len pre + ch.utf8Size)) =
      (some (ch :: cs.takeWhile cond),
       Lex.charIndices (cs.dropWhile cond) (Lex.utf8Len pre + ch.utf8Size + Lex.utf8Len (cs.takeWhile cond))) := by
  unfold tokenizeUntil
  have htail : Lex.sliceBytes (pre ++ ch :: cs) (Lex.utf8Len pre) (Lex.utf8Len (pre ++ ch :: cs)) = some (ch :: cs) := by
    have := Lex.sliceBytes_append pre (ch :: cs) []
    simp only [List.append_nil] at this
    rw [Lex.utf8Len_append]; exact this
  rw [htail]
  simp only
  rw [tokenizeUntilLoop_spec cond cs (Lex.utf8Len pre + ch.utf8Size)]
  simp only
  have hsplit : pre ++ ch :: cs = pre ++ (ch :: cs.takeWhile cond) ++ cs.dropWhile cond := by
    simp [List.takeWhile_append_dropWhile]
  have hlen : Lex.utf8Len pre + ch.utf8Size + Lex.utf8Len (cs.takeWhile cond) =
      Lex.utf8Len pre + Lex.utf8Len (ch :: cs.takeWhile cond) := by
    simp [Nat.add_assoc]
  rw [hlen, hsplit, Lex.sliceBytes_append]

/-- the lens lexer does not panic -/
theorem lexRest_no_panic (pre : List Char) (fuel : Nat) (cs : List Char) (site : String) :
    (lexRest (pre ++ cs) fuel (Lex.charIndices cs (Lex.utf8Len pre))).2 ≠ .panic site := by
  induction fuel generalizing pre cs with
  | zero => simp [lexRest]
  | succ fuel ih =>
    cases cs with
    | nil => simp [lexRest, Lex.charIndices]
    | cons ch rest =>
      have hnext : ∀ t, (let r := lexRest (pre ++ ch :: rest) fuel (Lex.charIndices rest (Lex.utf8Len pre + ch.utf8Size)); (t :: r.1, r.2)).2 ≠ LexEnd.panic site := by
        intro t
        have := ih (pre ++ [ch]) rest
        simpa using this
      -- after a run of accepted characters
      have hrun : ∀ (cond : Char → Bool) (t : LToken),
          (let r := lexRest (pre ++ ch :: rest) fuel
              (Lex.charIndices (rest.dropWhile cond) (Lex.utf8Len pre + ch.utf8Size + Lex.utf8Len (rest.takeWhile cond))); (t :: r.1, r.2)).2 ≠ LexEnd.panic site := by
        intro cond t
        have hsplit : pre ++ ch :: rest = (pre ++ ch :: rest.takeWhile cond) ++ rest.dropWhile cond := by
          simp [List.takeWhile_append_dropWhile]
        have := ih (pre ++ ch :: rest.takeWhile cond) (rest.dropWhile cond)
        rw [← hsplit] at this
        have hl : Lex.utf8Len (pre ++ ch :: rest.takeWhile cond) = Lex.utf8Len pre + ch.utf8Size + Lex.utf8Len (rest.takeWhile cond) := by
          simp [Nat.add_assoc]
        rw [hl] at this
        simpa using this
      simp only [Lex.charIndices, lexRest]
      split
      · exact hnext _
      · split
        · exact hnext _
        · split
          · exact hnext _
          · split
            · rw [tokenizeUntil_ok Lex.isDigitBase pre ch rest]
              simp only
              split
              · simp
              · exact hrun Lex.isDigitBase _
            · split
              · rw [tokenizeUntil_ok Lex.isLambdaAlphanumeric pre ch rest]
                exact hrun Lex.isLambdaAlphanumeric _
              · split
                · exact hnext _
                · simp

theorem lex_no_panic (input : List Char) (site : String) : (lex input).2 ≠ .panic site := by
  have key : ∀ n, (lexRest input (input.length + 1) ((Lex.charIndices input 0).drop n)).2 ≠ .panic site := by
    intro n
    rw [Lex.charIndices_drop]
    have h := lexRest_no_panic (input.take n) (input.length + 1) (input.drop n) site
    simpa using h
  unfold lex
  split
  · exact key _
  · split
    · exact key _
    · simp

def Outcome.panicky : Outcome → Bool
  | .panic _ | .errOrPanic .. => true
  | _ => false

/-- the lens parser neither panics nor may panic -/
theorem parse_not_panicky (input : List Char) : (parse input).panicky = false := by
  have hl := lex_no_panic input
  unfold parse
  generalize lex input = r at hl
  obtain ⟨ts, e⟩ := r
  simp only at hl ⊢
  cases e with
  | panic s => exact absurd rfl (hl s)
  | eof =>
    cases recognise ts with
    | valuePath r =>
      cases r with
      | complete as => by_cases ha : as.isEmpty <;> simp [Outcome.panicky, ha]
      | _ => simp [Outcome.panicky]
    | _ => simp [Outcome.panicky]
  | lexerError m =>
    cases recognise ts with
    | valuePath r =>
      cases r with
      | complete as => by_cases ha : as.isEmpty <;> simp [Outcome.panicky, ha]
      | _ => simp [Outcome.panicky]
    | _ => simp [Outcome.panicky]

end LambdaParser

-- ------------------------------------------------------------------------------------------------
-- call_variable_parser.rs

namespace CallVariableParser

/-- byte offset `o` is a character boundary of `str` -/
def Boundary (str : List Char) (o : Nat) : Prop := ∃ pre post, str = pre ++ post ∧ Lex.utf8Len pre = o

theorem boundary_of_mem_charIndices {str : List Char} {k o : Nat} {c : Char} (h : (o, c) ∈ Lex.charIndices str k) :
    ∃ pre post, str = pre ++ c :: post ∧ o = k + Lex.utf8Len pre := by
  induction str generalizing k with
  | nil => simp [Lex.charIndices] at h
  | cons d ds ih =>
    simp only [Lex.charIndices, List.mem_cons, Prod.mk.injEq] at h
    rcases h with ⟨rfl, rfl⟩ | h
    · exact ⟨[], ds, rfl, by simp⟩
    · obtain ⟨pre, post, hs, ho⟩ := ih h
      exact ⟨d :: pre, post, by simp [hs], by simp [ho]; omega⟩

/-- what one step may do to the two fields the final slices depend on -/
def Step (s s' : ParserState) : Prop :=
  s'.currentOffset = s.currentOffset ∧ (s'.firstDotMetPos = s.firstDotMetPos ∨ s'.firstDotMetPos = some s.currentOffset)

theorem Step.refl (s : ParserState) : Step s s := ⟨rfl, Or.inl rfl⟩
theorem Step.trans {a b c : ParserState} (h1 : Step a b) (h2 : Step b c) : Step a c := by
  obtain ⟨o1, f1⟩ := h1; obtain ⟨o2, f2⟩ := h2
  refine ⟨by rw [o2, o1], ?_⟩
  rcases f2 with f2 | f2
  · rw [f2]; exact f1
  · right; rw [f2, o1]

theorem step_firstMetDot {c : CvpCtx} {s s' : ParserState} {b : Bool} (h : tryParseFirstMetDot c s = .ok (b, s')) : Step s s' := by
  unfold tryParseFirstMetDot at h
  split at h
  · split at h
    · cases h
    · split at h
      · cases h
      · cases h; exact ⟨rfl, Or.inr rfl⟩
  · cases h; exact Step.refl _

theorem step_digit {s s' : ParserState} {b : Bool} (h : tryParseAsDigit s = (b, s')) : Step s s' := by
  unfold tryParseAsDigit at h
  split at h <;> cases h <;> exact ⟨rfl, Or.inl rfl⟩

theorem step_floatDot {c : CvpCtx} {s s' : ParserState} {b : Bool} (h : tryParseAsFloatDot c s = .ok (b, s')) : Step s s' := by
  unfold tryParseAsFloatDot at h
  cases hd : tryParseFirstMetDot c s with
  | error e => simp [hd, bind, Except.bind] at h
  | ok r =>
    obtain ⟨b1, s1⟩ := r
    simp only [hd, bind, Except.bind] at h
    split at h
    · cases h
    · cases h; exact step_firstMetDot hd

theorem step_stream {c : CvpCtx} {s s' : ParserState} {b : Bool} (h : tryParseAsStream c s = .ok (b, s')) : Step s s' := by
  unfold tryParseAsStream at h
  simp only at h
  split at h
  · split at h
    · cases h
    · cases h; exact ⟨rfl, Or.inl rfl⟩
  · cases h; exact Step.refl _

theorem step_canon {c : CvpCtx} {s s' : ParserState} {b : Bool} (h : tryParseAsCanon c s = .ok (b, s')) : Step s s' := by
  unfold tryParseAsCanon at h
  simp only at h
  split at h
  · split at h
    · cases h
    · cases h; exact ⟨rfl, Or.inl rfl⟩
  · cases h; exact Step.refl _

theorem step_lens {c : CvpCtx} {s s' : ParserState} (h : tryParseAsLens c s = .ok s') : Step s s' := by
  unfold tryParseAsLens at h
  split at h
  · cases h; exact Step.refl _
  · cases hf : tryParseAsFlattening c s with
    | mk fl s1 =>
      have st : Step s s1 := by
        unfold tryParseAsFlattening at hf
        split at hf <;> cases hf <;> exact ⟨rfl, Or.inl rfl⟩
      simp only [hf] at h
      split at h
      · cases h
      · cases h; exact st

theorem step_variable {c : CvpCtx} {s s' : ParserState} (h : tryParseAsVariable c s = .ok s') : Step s s' := by
  unfold tryParseAsVariable at h
  cases h1 : tryParseAsCanon c s with
  | error e => simp [h1, bind, Except.bind] at h
  | ok r1 =>
    obtain ⟨b1, s1⟩ := r1
    have st1 := step_canon h1
    simp only [h1, bind, Except.bind] at h
    split at h
    · cases h; exact st1
    · cases h2 : tryParseAsStream c s1 with
      | error e => simp [h2] at h
      | ok r2 =>
        obtain ⟨b2, s2⟩ := r2
        have st2 := st1.trans (step_stream h2)
        simp only [h2] at h
        split at h
        · cases h; exact st2
        · cases h3 : tryParseFirstMetDot c s2 with
          | error e => simp [h3] at h
          | ok r3 =>
            obtain ⟨b3, s3⟩ := r3
            have st3 := st2.trans (step_firstMetDot h3)
            simp only [h3] at h
            split at h
            · cases h; exact st3
            · split at h
              · exact st3.trans (step_lens h)
              · cases h4 : tryParseAsAlphanumeric c s3 with
                | error e => simp [h4] at h
                | ok u => simp only [h4] at h; cases h; exact st3

theorem step_stepChar {c : CvpCtx} {s s' : ParserState} (h : stepChar c s = .ok s') : Step s s' := by
  unfold stepChar at h
  split at h
  · unfold tryParseAsNumber at h
    simp only [bind, Except.bind, pure, Except.pure] at h
    split at h
    · cases h; exact Step.refl _
    · cases hd : tryParseAsDigit s with
      | mk b1 s1 =>
        have st1 := step_digit hd
        simp only [hd] at h
        split at h
        · cases h; exact st1
        · cases hf : tryParseAsFloatDot c s1 with
          | error e => simp [hf] at h
          | ok r =>
            obtain ⟨b2, s2⟩ := r
            have st2 := st1.trans (step_floatDot hf)
            simp only [hf] at h
            split at h
            · cases h; exact st2
            · unfold handleNonDigit at h
              split at h
              · cases h
              · have := step_variable h
                exact st2.trans ⟨this.1, this.2⟩
  · exact step_variable h

/-- the invariant of the loop of `try_parse` -/
def Inv (str : List Char) (s : ParserState) : Prop :=
  Boundary str s.currentOffset ∧ ∀ o, s.firstDotMetPos = some o → Boundary str o

theorem inv_step {str : List Char} {s s' : ParserState} (hi : Inv str s) (hs : Step s s') : Inv str s' := by
  refine ⟨by rw [hs.1]; exact hi.1, fun o ho => ?_⟩
  rcases hs.2 with h | h
  · exact hi.2 o (by rw [← h]; exact ho)
  · rw [h] at ho; cases ho; exact hi.1

theorem inv_loop {str : List Char} {c : CvpCtx} (rest : List (Nat × Char)) (s s' : ParserState)
    (hrest : ∀ p ∈ rest, Boundary str p.1) (hi : Inv str s) (h : loop c s rest = .ok s') : Inv str s' := by
  induction rest generalizing s with
  | nil => exact inv_step hi (step_stepChar h)
  | cons p rest ih =>
    obtain ⟨pos, ch⟩ := p
    simp only [loop, bind, Except.bind] at h
    cases hs : stepChar c s with
    | error e => simp [hs] at h
    | ok s1 =>
      simp only [hs] at h
      have hi1 := inv_step hi (step_stepChar hs)
      apply ih _ (fun p hp => hrest p (List.mem_cons_of_mem _ hp)) _ h
      exact ⟨hrest (pos, ch) (by simp), hi1.2⟩

def TokRes.panicky : TokRes → Bool
  | .panic _ | .errOrPanic .. => true
  | _ => false

theorem lambdaToTok_not_panicky (r : LambdaParser.Outcome) (l rr : Nat) (k : Lambda → Token) (h : r.panicky = false) :
    (lambdaToTok r l rr k).panicky = false := by
  cases r <;> simp_all [lambdaToTok, TokRes.panicky, LambdaParser.Outcome.panicky]

theorem sliceBytes_boundary {str : List Char} {o : Nat} (h : Boundary str o) :
    ∃ pre post, str = pre ++ post ∧ Lex.sliceBytes str o (Lex.utf8Len str) = some post ∧ Lex.sliceBytes str 0 o = some pre := by
  obtain ⟨pre, post, hs, ho⟩ := h
  refine ⟨pre, post, hs, ?_, ?_⟩
  · have := Lex.sliceBytes_append pre post []
    simp only [List.append_nil] at this
    rw [hs, Lex.utf8Len_append, ← ho]; exact this
  · have := Lex.sliceBytes_append [] pre post
    simp only [List.nil_append, Lex.utf8Len_nil, Nat.zero_add] at this
    rw [hs, ← ho]; exact this

theorem toToken_not_panicky (str : List Char) (startPos : Nat) (s : ParserState) (hi : Inv str s) :
    (toToken { len := Lex.utf8Len str, startPos } s str).panicky = false := by
  unfold toToken
  simp only
  split
  · split <;> simp [TokRes.panicky]
  · split
    · simp [TokRes.panicky]
    · split <;> simp [TokRes.panicky]
  · simp [TokRes.panicky]
  · rename_i o hnum ho
    obtain ⟨pre, post, hs, h1, h2⟩ := sliceBytes_boundary (hi.2 o ho)
    rw [h1, h2]
    simp only
    apply lambdaToTok_not_panicky
    apply LambdaParser.parse_not_panicky

theorem tryParse_not_panicky (str : List Char) (startPos : Nat) :
    (tryParse str startPos).panicky = false := by
  unfold tryParse
  cases hci : Lex.charIndices str 0 with
  | nil => simp [TokRes.panicky]
  | cons p rest =>
    obtain ⟨off, ch⟩ := p
    simp only
    cases hl : loop { len := Lex.utf8Len str, startPos } { currentChar := ch, currentOffset := off } rest with
    | error e => simp [TokRes.panicky]
    | ok s =>
      simp only
      apply toToken_not_panicky str startPos s
      have hb : ∀ p ∈ Lex.charIndices str 0, Boundary str p.1 := by
        intro p hp
        obtain ⟨pre, post, hs, ho⟩ := boundary_of_mem_charIndices (o := p.1) (c := p.2) hp
        exact ⟨pre, p.2 :: post, hs, by omega⟩
      apply inv_loop rest _ s (fun p hp => hb p (by rw [hci]; exact List.mem_cons_of_mem _ hp)) _ hl
      exact ⟨hb (off, ch) (by rw [hci]; simp), by simp⟩

end CallVariableParser

-- ------------------------------------------------------------------------------------------------
-- air_lexer.rs

namespace AIRLexer
open CallVariableParser (TokRes TokRes.panicky)

theorem parseError_not_panicky (input : List Char) (startPos : Nat) (tokenStr : String) (wo : Token) (wl : Lambda → Token)
    (hpre : tokenStr.toList.isPrefixOf input = true) (hsize : tokenStr.utf8ByteSize = Lex.utf8Len tokenStr.toList) : (parseError input startPos tokenStr wo wl).panicky = false := by
  obtain ⟨t, ht⟩ := List.isPrefixOf_iff_prefix.mp hpre
  unfold parseError
  simp only
  split
  · simp [TokRes.panicky]
  · split
    · simp [TokRes.panicky]
    · have hs : Lex.sliceBytes input tokenStr.utf8ByteSize (Lex.utf8Len input) = some t := by
        have := Lex.sliceBytes_append tokenStr.toList t []
        simp only [List.append_nil] at this
        rw [← ht, hsize, Lex.utf8Len_append]; exact this
      rw [hs]
      simp only
      apply CallVariableParser.lambdaToTok_not_panicky
      apply LambdaParser.parse_not_panicky

theorem stringToToken_not_panicky (input : List Char) (startPos : Nat) :
    (stringToToken input startPos).panicky = false := by
  unfold stringToToken
  simp only
  split
  · simp [TokRes.panicky]
  · split
    · simp [TokRes.panicky]
    · split
      · simp [TokRes.panicky]
      · split
        · rename_i hp
          exact parseError_not_panicky _ _ _ _ _ hp (by decide)
        · split
          · rename_i hp
            exact parseError_not_panicky _ _ _ _ _ hp (by decide)
          · split
            · simp [TokRes.panicky]
            · split
              · simp [TokRes.panicky]
              · split
                · simp [TokRes.panicky]
                · split
                  · simp [TokRes.panicky]
                  · exact CallVariableParser.tryParse_not_panicky input startPos

def _root_.Aqua.Air.LexItem.panicky : LexItem → Bool
  | .panic _ | .errOrPanic .. => true
  | _ => false

theorem nextToken_spec (inputLen fuel : Nat) (cis : List (Nat × Char))
    {item : LexItem} {rest : List (Nat × Char)} (h : nextToken inputLen fuel cis = some (item, rest)) :
    item.panicky = false := by
  induction fuel generalizing cis with
  | zero => simp [nextToken] at h
  | succ fuel ih =>
    cases cis with
    | nil => simp [nextToken] at h
    | cons p tl =>
      obtain ⟨startPos, ch⟩ := p
      simp only [nextToken] at h
      split at h
      · cases h; rfl
      · split at h
        · cases h; rfl
        · split at h
          · cases h; rfl
          · split at h
            · cases h; rfl
            · split at h
              · exact ih _ h
              · split at h
                · exact ih _ h
                · split at h
                  · split at h
                    · cases h; rfl
                    · cases h; rfl
                  · generalize advanceToTokenEnd inputLen [] 0 0 tl = adv at h
                    obtain ⟨tail, endPos, rest'⟩ := adv
                    simp only at h
                    have hnp := stringToToken_not_panicky (ch :: tail) startPos
                    cases hst : stringToToken (ch :: tail) startPos with
                    | ok t => simp only [hst] at h; cases h; rfl
                    | err e => simp only [hst] at h; cases h; rfl
                    | panic s => rw [hst] at hnp; simp [TokRes.panicky] at hnp
                    | errOrPanic e s => rw [hst] at hnp; simp [TokRes.panicky] at hnp

end AIRLexer

theorem lexItems_not_panicky (inputLen fuel0 fuel : Nat) (cis : List (Nat × Char)) :
    ∀ item ∈ lexItems inputLen fuel0 fuel cis, item.panicky = false := by
  induction fuel generalizing cis with
  | zero => simp [lexItems]
  | succ fuel ih =>
    simp only [lexItems]
    cases hn : AIRLexer.nextToken inputLen fuel0 cis with
    | none => simp
    | some r =>
      obtain ⟨item, rest⟩ := r
      have h1 := AIRLexer.nextToken_spec inputLen fuel0 cis hn
      cases item with
      | tok l t r =>
        simp only
        intro it hit
        rcases List.mem_cons.mp hit with rfl | hit
        · rfl
        · exact ih rest it hit
      | err e => simp only; intro it hit; simp at hit; subst hit; rfl
      | panic s => simp [LexItem.panicky] at h1
      | errOrPanic e s => simp [LexItem.panicky] at h1

theorem lex_not_panicky (text : List Char) : ∀ item ∈ lex text, item.panicky = false := by
  unfold lex
  apply lexItems_not_panicky

theorem splitItems_last_mem (l : List LexItem) {ts : List Tok} {item : LexItem} (h : splitItems l = (ts, some item)) :
    item ∈ l := by
  induction l generalizing ts with
  | nil => simp [splitItems] at h
  | cons x xs ih =>
    cases x with
    | tok a t b =>
      simp only [splitItems] at h
      cases hs : splitItems xs with
      | mk ts' e =>
        rw [hs] at h
        simp only [Prod.mk.injEq] at h
        exact List.mem_cons_of_mem _ (ih (by rw [hs, h.2]))
    | err e => simp only [splitItems, Prod.mk.injEq, Option.some.injEq] at h; rw [← h.2]; simp
    | panic s => simp only [splitItems, Prod.mk.injEq, Option.some.injEq] at h; rw [← h.2]; simp
    | errOrPanic e s => simp only [splitItems, Prod.mk.injEq, Option.some.injEq] at h; rw [← h.2]; simp

/-- **no panic**: the model's `parse` neither panics nor reaches the "syntax error, then possibly a
panic" outcome, for any text -/
theorem parseChars_no_panic (text : List Char) :
    (∀ s, parseChars text ≠ .panic s) ∧ (∀ s, parseChars text ≠ .error (.syntaxThenPanic s)) := by
  have hl := lex_not_panicky text
  unfold parseChars
  cases hs : splitItems (lex text) with
  | mk ts last =>
    simp only
    have hlast : ∀ item, last = some item → item.panicky = false := fun item hi =>
      hl item (splitItems_last_mem _ (by rw [hs, hi]))
    cases last with
    | none =>
      constructor <;> intro s <;> cases Grammar.air ts <;> simp [finishParse] <;> split <;> (try split) <;> simp
    | some item =>
      have hp := hlast item rfl
      cases item with
      | panic s => simp [LexItem.panicky] at hp
      | errOrPanic e s => simp [LexItem.panicky] at hp
      | tok a t b => constructor <;> intro s <;> cases Grammar.air ts <;> simp
      | err e => constructor <;> intro s <;> cases Grammar.air ts <;> simp

end Aqua.Air
