import Aqua.Exec.Call
import Aqua.Exec.Exec
/-!
Use-site lemmas for results taken from merged data (`handle_prev_state` → `populate_context_from_data` →
`resolve_service_info` + `verify_call`), for ALL contexts.  Used by C14.
-/
namespace AquaProps.UseSite
open Aqua Aqua.Exec Aqua.Data Aqua.Air Aqua.Trace

theorem verifyCall_ok {eh : String} {et : Tetraplet} {sh : String} {st : Tetraplet} (h : verifyCall eh et sh st = .ok ()) : eh = sh ∧ et = st := by
  unfold verifyCall at h
  by_cases h1 : eh = sh
  · by_cases h2 : et = st
    · exact ⟨h1, h2⟩
    · simp [h1, h2, uncatchable] at h
  · simp [h1, uncatchable] at h

/-- the CID of an executed value that names a signed result -/
def resultCid : ValueRef → Option Cid
  | .scalar cid => some cid
  | .stream cid _ => some cid
  | .unused _ => none

theorem populateFromData_result {env : Env} {c c' : Ctx} {value : ValueRef} {cid : Cid} {ah : String} {t : Tetraplet} {pos : Nat}
    {out : CallOutput} {src : ValueSource} (hv : resultCid value = some cid)
    (h : populateFromData env c value ah t pos out src = .ok c') :
    ∃ v agg, resolveServiceInfo env c.cid cid = .ok (v, t, agg) ∧ ah = agg.argumentHash := by
  have key : ∀ (k : Json.JVal × Tetraplet × ServiceResultAgg → ER Ctx),
      ((resolveServiceInfo env c.cid cid).bind fun r => (verifyCall ah t r.2.2.argumentHash r.2.1).bind fun _ => k r) = .ok c' →
      ∃ v agg, resolveServiceInfo env c.cid cid = .ok (v, t, agg) ∧ ah = agg.argumentHash := by
    intro k hk
    cases hr : resolveServiceInfo env c.cid cid with
    | error e => simp [hr, Res.bind] at hk
    | panic s => simp [hr, Res.bind] at hk
    | ok r =>
      obtain ⟨v, curT, agg⟩ := r
      simp only [hr, Res.bind] at hk
      cases hvc : verifyCall ah t agg.argumentHash curT with
      | error e => simp [hvc] at hk
      | panic s => simp [hvc] at hk
      | ok u =>
        obtain ⟨h1, h2⟩ := verifyCall_ok hvc
        subst h2
        exact ⟨v, agg, rfl, h1⟩
  unfold populateFromData at h
  split at h
  · rename_i name cid' 
    simp only [resultCid, Option.some.injEq] at hv
    subst hv
    exact key _ h
  · rename_i name pos' cid' generation
    simp only [resultCid, Option.some.injEq] at hv
    subst hv
    exact key _ h
  · simp [resultCid] at hv
  · simp [uncatchable] at h

theorem handlePrevState_executed {env : Env} {met : MetCallResult} {t : Tetraplet} {argHash : Option String} {out : CallOutput}
    {c : Ctx} {value : ValueRef} {cid : Cid} {sd : StateDescriptor}
    (hm : met.result = .executed value) (hv : resultCid value = some cid)
    (h : (handlePrevState env met t argHash out c).1 = .ok sd) :
    ∃ v agg, resolveServiceInfo env c.cid cid = .ok (v, t, agg) ∧ argHash = some agg.argumentHash := by
  unfold handlePrevState at h
  rw [hm] at h
  simp only at h
  cases argHash with
  | none => simp [unwrapHash, panicM, bind, M.bind] at h
  | some ah =>
    simp only [unwrapHash, bind, M.bind, pure, M.pure, modifyER] at h
    cases hp : populateFromData env c value ah t met.tracePos out met.source with
    | error e => simp [hp] at h
    | panic s => simp [hp] at h
    | ok c' =>
      obtain ⟨v, agg, h1, h2⟩ := populateFromData_result hv hp
      exact ⟨v, agg, h1, by rw [h2]⟩

theorem handlePrevState_executed_scalar {env : Env} {met : MetCallResult} {t : Tetraplet} {argHash : Option String} {out : CallOutput}
    {c : Ctx} {cid : Cid} {sd : StateDescriptor}
    (hm : met.result = .executed (.scalar cid))
    (h : (handlePrevState env met t argHash out c).1 = .ok sd) :
    ∃ v agg, resolveServiceInfo env c.cid cid = .ok (v, t, agg) ∧ argHash = some agg.argumentHash :=
  handlePrevState_executed hm rfl h

theorem resolveServiceInfo_error {env : Env} {cs : CidState} {cid : Cid} {e : ExecErr}
    (h : resolveServiceInfo env cs cid = .error e) : ∃ u, e = .uncatchable u := by
  unfold resolveServiceInfo at h
  repeat' split at h
  all_goals first | (simp only [uncatchable, Res.error.injEq] at h; exact ⟨_, h.symm⟩) | cases h

theorem verifyCall_error {eh : String} {et : Tetraplet} {sh : String} {st : Tetraplet} {e : ExecErr}
    (h : verifyCall eh et sh st = .error e) : ∃ p x y, e = .uncatchable (.instructionParametersMismatch p x y) := by
  unfold verifyCall at h
  repeat' split at h
  all_goals first | (simp only [uncatchable, Res.error.injEq] at h; exact ⟨_, _, _, h.symm⟩) | cases h

theorem verifyCall_mismatch {eh : String} {et : Tetraplet} {sh : String} {st : Tetraplet} (hne : eh ≠ sh ∨ et ≠ st) :
    ∃ p x y, verifyCall eh et sh st = .error (.uncatchable (.instructionParametersMismatch p x y)) := by
  unfold verifyCall
  by_cases h1 : eh = sh
  · have h2 : et ≠ st := by rcases hne with h | h; exact absurd h1 h; exact h
    exact ⟨"call tetraplet", et.debug, st.debug, by simp [h1, h2, uncatchable]⟩
  · exact ⟨"call argument_hash", eh, sh, by simp [h1, uncatchable]⟩

theorem handlePrevState_failed {env : Env} {met : MetCallResult} {t : Tetraplet} {argHash : Option String} {out : CallOutput}
    {c : Ctx} {cid : Cid} {e : CatchableErr}
    (hm : met.result = .failed cid)
    (h : (handlePrevState env met t argHash out c).1 = .error (.catchable e)) :
    ∃ v agg, resolveServiceInfo env c.cid cid = .ok (v, t, agg) ∧ argHash = some agg.argumentHash := by
  unfold handlePrevState at h
  rw [hm] at h
  simp only [bind, M.bind, readER] at h
  cases hr : resolveServiceInfo env c.cid cid with
  | error e' =>
    obtain ⟨u, rfl⟩ := resolveServiceInfo_error hr
    simp [hr] at h
  | panic s => simp [hr] at h
  | ok r =>
    obtain ⟨v, curT, agg⟩ := r
    simp only [hr] at h
    cases argHash with
    | none => simp [unwrapHash, panicM] at h
    | some ah =>
      simp only [unwrapHash, pure, M.pure] at h
      cases hv : verifyCall ah t agg.argumentHash curT with
      | error e' =>
        obtain ⟨p, x, y, rfl⟩ := verifyCall_error hv
        simp [hv] at h
      | panic s => simp [hv] at h
      | ok u =>
        obtain ⟨h1, h2⟩ := verifyCall_ok hv
        subst h2
        exact ⟨v, agg, rfl, by rw [h1]⟩

/-- relocation: a stored result whose argument hash or tetraplet differs from the instruction's is
rejected with `InstructionParametersMismatch`, the context is left untouched -/
theorem handlePrevState_mismatch_scalar {env : Env} {met : MetCallResult} {t curT : Tetraplet} {ah : String} {name : String}
    {c : Ctx} {cid : Cid} {v : Json.JVal} {agg : ServiceResultAgg}
    (hm : met.result = .executed (.scalar cid))
    (hr : resolveServiceInfo env c.cid cid = .ok (v, curT, agg))
    (hne : ah ≠ agg.argumentHash ∨ t ≠ curT) :
    ∃ p x y, handlePrevState env met t (some ah) (.scalar name) c = (.error (.uncatchable (.instructionParametersMismatch p x y)), c) := by
  obtain ⟨p, x, y, hv⟩ := verifyCall_mismatch hne
  refine ⟨p, x, y, ?_⟩
  unfold handlePrevState
  rw [hm]
  simp only [unwrapHash, bind, M.bind, pure, M.pure, modifyER, populateFromData, hr, Res.bind, hv]

theorem handlePrevState_mismatch_failed {env : Env} {met : MetCallResult} {t curT : Tetraplet} {ah : String} {out : CallOutput}
    {c : Ctx} {cid : Cid} {v : Json.JVal} {agg : ServiceResultAgg}
    (hm : met.result = .failed cid)
    (hr : resolveServiceInfo env c.cid cid = .ok (v, curT, agg))
    (hne : ah ≠ agg.argumentHash ∨ t ≠ curT) :
    ∃ p x y, handlePrevState env met t (some ah) out c = (.error (.uncatchable (.instructionParametersMismatch p x y)), c) := by
  obtain ⟨p, x, y, hv⟩ := verifyCall_mismatch hne
  refine ⟨p, x, y, ?_⟩
  unfold handlePrevState
  rw [hm]
  simp only [unwrapHash, bind, M.bind, pure, M.pure, readER, hr, hv]

theorem resolvedExecute_executed_scalar {env : Env} {i : Instr} {t : Tetraplet} {args : List Value} {out : CallOutput} {c : Ctx}
    {checked : Option (List Json.JVal)} {m : MetCallResult} {th' : TraceHandler} {cid : Cid}
    (hargs : checkArgs c args = .ok checked)
    (hmet : c.th.meetCallStart = .ok (.met m, th'))
    (hm : m.result = .executed (.scalar cid))
    (hres : (resolvedExecute env i t args out c).1 = .ok ()) :
    ∃ vs tss v agg, collectArgs c args = .ok (vs, tss) ∧ resolveServiceInfo env c.cid cid = .ok (v, t, agg) ∧
      agg.argumentHash = env.hash (argsJson vs) := by
  unfold resolvedExecute at hres
  simp only [bind, M.bind, readER, hargs, liftTH, stateER, traceToExec, hmet, Res.mapErr, Res.bind, prepareState] at hres
  cases hh : handlePrevState env m t (checked.map fun vs => env.hash (argsJson vs)) out { c with th := th' } with
  | mk r c1 =>
    rw [hh] at hres
    cases r with
    | error e => simp at hres
    | panic s => simp at hres
    | ok sd =>
      have h1 : (handlePrevState env m t (checked.map fun vs => env.hash (argsJson vs)) out { c with th := th' }).1 = .ok sd := by rw [hh]
      obtain ⟨v, agg, hr, ha⟩ := handlePrevState_executed_scalar hm h1
      cases checked with
      | none => simp at ha
      | some vs =>
        simp only [Option.map_some, Option.some.injEq] at ha
        unfold checkArgs at hargs
        cases hc : collectArgs c args with
        | error e => rw [hc] at hargs; simp only at hargs; split at hargs <;> cases hargs
        | panic s => rw [hc] at hargs; cases hargs
        | ok p =>
          obtain ⟨vs', tss⟩ := p
          rw [hc] at hargs
          simp only [Res.ok.injEq, Option.some.injEq] at hargs
          subst hargs
          exact ⟨vs', tss, v, agg, rfl, hr, ha.symm⟩

/-! ## canon results from merged data (`handle_canon_executed` + `verify_canon`) -/

theorem verifyCanon_ok {e s : Tetraplet} (h : verifyCanon e s = .ok ()) : e = s := by
  unfold verifyCanon at h
  by_cases h1 : e = s
  · exact h1
  · simp [h1, uncatchable] at h

/-- a canon result of the merged data is accepted only if the tetraplet stored for it is exactly
(the peer the instruction resolves, "", "", "") -/
theorem canonExecuted_ok {env : Env} {canonName : CanonTarget} {peer : Value} {cid : Cid} {c : Ctx}
    (h : (canonExecuted env canonName peer cid c).1 = .ok ()) :
    ∃ peerId agg, resolveToString c peer = .ok peerId ∧ lookup c.cid.canonResults cid = some agg ∧
      getTetrapletByCid c.cid agg.tetraplet = .ok ({ peerPk := peerId } : Tetraplet) := by
  unfold canonExecuted canonRead at h
  simp only [bind, M.bind, readER] at h
  cases hp : resolveToString c peer with
  | error e => simp [hp, Res.bind] at h
  | panic s => simp [hp, Res.bind] at h
  | ok peerId =>
    simp only [hp, Res.bind] at h
    cases hl : lookup c.cid.canonResults cid with
    | none => simp [hl, uncatchable] at h
    | some agg =>
      simp only [hl] at h
      cases ht : getTetrapletByCid c.cid agg.tetraplet with
      | error e => simp [ht] at h
      | panic s => simp [ht] at h
      | ok t =>
        simp only [ht] at h
        cases hv : verifyCanon ({ peerPk := peerId } : Tetraplet) t with
        | error e => simp [hv] at h
        | panic s => simp [hv] at h
        | ok u =>
          have := verifyCanon_ok hv
          exact ⟨peerId, agg, rfl, rfl, by rw [this]; exact ht⟩

/-- and rejected with `InstructionParametersMismatch`, context untouched, when it differs -/
theorem canonExecuted_mismatch {env : Env} {canonName : CanonTarget} {peer : Value} {cid : Cid} {c : Ctx}
    {peerId : String} {agg : CanonResultAgg} {t : Tetraplet}
    (hp : resolveToString c peer = .ok peerId) (hl : lookup c.cid.canonResults cid = some agg)
    (ht : getTetrapletByCid c.cid agg.tetraplet = .ok t) (hne : ({ peerPk := peerId } : Tetraplet) ≠ t) :
    ∃ x y, canonExecuted env canonName peer cid c = (.error (.uncatchable (.instructionParametersMismatch "canon tetraplet" x y)), c) := by
  refine ⟨({ peerPk := peerId } : Tetraplet).debug, t.debug, ?_⟩
  unfold canonExecuted canonRead
  simp only [bind, M.bind, readER, hp, Res.bind, hl, ht, verifyCanon, bne_iff_ne, ne_eq, hne, not_false_eq_true, if_true, uncatchable]

end AquaProps.UseSite
