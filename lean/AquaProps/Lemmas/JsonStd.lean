import Aqua.Json.Std
import AquaProps.Lemmas.JsonValue
/-! Structural equality, the implementation's `==` (`valEq`), and the conversions `JValue` ↔ `serde_json::Value`. -/
namespace AquaProps.JsonLemmas
open Aqua.Json

/-! ## `JVal.beq` is equality -/

mutual
theorem beq_eq : (v w : JVal) → JVal.beq v w = true → v = w
  | .null, w, h => by cases w <;> simp [JVal.beq] at h ⊢
  | .bool a, w, h => by cases w <;> simp [JVal.beq] at h ⊢; exact h
  | .num a, w, h => by cases w <;> simp [JVal.beq] at h ⊢; exact h
  | .float a, w, h => by cases w <;> simp [JVal.beq] at h ⊢; exact h
  | .str a, w, h => by cases w <;> simp [JVal.beq] at h ⊢; exact h
  | .arr a, w, h => by
    cases w <;> simp [JVal.beq] at h ⊢
    exact beqList_eq a _ h
  | .obj a, w, h => by
    cases w <;> simp [JVal.beq] at h ⊢
    exact beqPairs_eq a _ h
theorem beqList_eq : (a b : List JVal) → JVal.beqList a b = true → a = b
  | [], b, h => by cases b <;> simp [JVal.beqList] at h ⊢
  | x :: xs, b, h => by
    cases b with
    | nil => simp [JVal.beqList] at h
    | cons y ys =>
      simp only [JVal.beqList, Bool.and_eq_true] at h
      rw [beq_eq x y h.1, beqList_eq xs ys h.2]
theorem beqPairs_eq : (a b : List (String × JVal)) → JVal.beqPairs a b = true → a = b
  | [], b, h => by cases b <;> simp [JVal.beqPairs] at h ⊢
  | (k, x) :: xs, b, h => by
    cases b with
    | nil => simp [JVal.beqPairs] at h
    | cons p ys =>
      obtain ⟨k', y⟩ := p
      simp only [JVal.beqPairs, Bool.and_eq_true, beq_iff_eq] at h
      rw [h.1.1, beq_eq x y h.1.2, beqPairs_eq xs ys h.2]
end

mutual
theorem beq_refl : (v : JVal) → JVal.beq v v = true
  | .null => by simp [JVal.beq]
  | .bool a => by simp [JVal.beq]
  | .num a => by simp [JVal.beq]
  | .float a => by simp [JVal.beq]
  | .str a => by simp [JVal.beq]
  | .arr a => by simp only [JVal.beq]; exact beqList_refl a
  | .obj a => by simp only [JVal.beq]; exact beqPairs_refl a
theorem beqList_refl : (a : List JVal) → JVal.beqList a a = true
  | [] => by simp [JVal.beqList]
  | x :: xs => by simp only [JVal.beqList, Bool.and_eq_true]; exact ⟨beq_refl x, beqList_refl xs⟩
theorem beqPairs_refl : (a : List (String × JVal)) → JVal.beqPairs a a = true
  | [] => by simp [JVal.beqPairs]
  | (k, x) :: xs => by simp only [JVal.beqPairs, Bool.and_eq_true, beq_self_eq_true, true_and]; exact ⟨beq_refl x, beqPairs_refl xs⟩
end

theorem beq_iff (v w : JVal) : JVal.beq v w = true ↔ v = w :=
  ⟨beq_eq v w, fun h => h ▸ beq_refl v⟩

/-! ## `JVal.valEq` (the derived `PartialEq`) is equality up to the sign of zero floats -/

theorem normFloat_eq (a : String) : JVal.normZero (.float a) = .float (if isZeroRepr a then "0.0" else a) := by
  simp only [JVal.normZero]; split <;> rfl

theorem floatEq_iff (a b : String) :
    floatEq a b = true ↔ (if isZeroRepr a then "0.0" else a) = (if isZeroRepr b then "0.0" else b) := by
  unfold floatEq
  have hz : isZeroRepr "0.0" = true := by decide
  by_cases ha : isZeroRepr a = true <;> by_cases hb : isZeroRepr b = true
  · simp [ha, hb]
  · simp only [ha, hb, if_true, Bool.false_eq_true, if_false, Bool.and_false, Bool.or_false, beq_iff_eq]
    constructor
    · intro h; subst h; exact absurd ha hb
    · intro h; subst h; exact absurd hz hb
  · simp only [ha, hb, if_true, Bool.false_eq_true, if_false, Bool.false_and, Bool.or_false, beq_iff_eq]
    constructor
    · intro h; subst h; exact absurd hb ha
    · intro h; subst h; exact absurd hz ha
  · simp [ha, hb]

mutual
theorem valEq_iff : (v w : JVal) → (JVal.valEq v w = true ↔ v.normZero = w.normZero)
  | .null, w => by cases w <;> (try simp only [normFloat_eq]) <;> simp [JVal.valEq, JVal.normZero]
  | .bool a, w => by cases w <;> (try simp only [normFloat_eq]) <;> simp [JVal.valEq, JVal.normZero]
  | .num a, w => by cases w <;> (try simp only [normFloat_eq]) <;> simp [JVal.valEq, JVal.normZero]
  | .str a, w => by cases w <;> (try simp only [normFloat_eq]) <;> simp [JVal.valEq, JVal.normZero]
  | .float a, w => by
    cases w <;> simp only [JVal.valEq, normFloat_eq] <;> try (simp [JVal.normZero])
    rw [floatEq_iff]
  | .arr a, w => by
    cases w <;> simp only [JVal.valEq, normFloat_eq] <;> try (simp [JVal.normZero])
    exact valEqList_iff a _
  | .obj a, w => by
    cases w <;> simp only [JVal.valEq, normFloat_eq] <;> try (simp [JVal.normZero])
    exact valEqPairs_iff a _
theorem valEqList_iff : (a b : List JVal) → (JVal.valEqList a b = true ↔ JVal.normZeroList a = JVal.normZeroList b)
  | [], b => by cases b <;> simp [JVal.valEqList, JVal.normZeroList]
  | x :: xs, b => by
    cases b with
    | nil => simp [JVal.valEqList, JVal.normZeroList]
    | cons y ys =>
      simp only [JVal.valEqList, JVal.normZeroList, Bool.and_eq_true, List.cons.injEq]
      rw [valEq_iff x y, valEqList_iff xs ys]
theorem valEqPairs_iff : (a b : List (String × JVal)) → (JVal.valEqPairs a b = true ↔ JVal.normZeroPairs a = JVal.normZeroPairs b)
  | [], b => by
    cases b with
    | nil => simp [JVal.valEqPairs, JVal.normZeroPairs]
    | cons p ys => obtain ⟨k', y⟩ := p; simp [JVal.valEqPairs, JVal.normZeroPairs]
  | (k, x) :: xs, b => by
    cases b with
    | nil => simp [JVal.valEqPairs, JVal.normZeroPairs]
    | cons p ys =>
      obtain ⟨k', y⟩ := p
      simp only [JVal.valEqPairs, JVal.normZeroPairs, Bool.and_eq_true, List.cons.injEq, Prod.mk.injEq, beq_iff_eq]
      rw [valEq_iff x y, valEqPairs_iff xs ys]
end

/-! ## conversions -/

mutual
/-- object keys strictly sorted, everywhere inside the value -/
def Sorted : JVal → Prop
  | .arr l => SortedList l
  | .obj kvs => SortedPairs kvs ∧ KeysSorted kvs
  | _ => True
def SortedList : List JVal → Prop
  | [] => True
  | v :: vs => Sorted v ∧ SortedList vs
def SortedPairs : List (String × JVal) → Prop
  | [] => True
  | (_, v) :: kvs => Sorted v ∧ SortedPairs kvs
end

mutual
/-- the invariant of `serde_json::Value`: `NegInt` is negative, `BTreeMap` keys strictly sorted -/
def StdWF : StdVal → Prop
  | .number (.negInt i) => i < 0
  | .array l => StdWFList l
  | .object kvs => StdWFPairs kvs ∧ (kvs.map Prod.fst).Pairwise (· < ·)
  | _ => True
def StdWFList : List StdVal → Prop
  | [] => True
  | v :: vs => StdWF v ∧ StdWFList vs
def StdWFPairs : List (String × StdVal) → Prop
  | [] => True
  | (_, v) :: kvs => StdWF v ∧ StdWFPairs kvs
end

mutual
theorem sorted_of_WF (fo : FloatOracle) : (v : JVal) → WF fo v → Sorted v
  | .null, _ => trivial
  | .bool _, _ => trivial
  | .num _, _ => trivial
  | .float _, _ => trivial
  | .str _, _ => trivial
  | .arr l, h => sortedList_of_WF fo l h
  | .obj kvs, h => ⟨sortedPairs_of_WF fo kvs h.1, h.2⟩
theorem sortedList_of_WF (fo : FloatOracle) : (l : List JVal) → WFList fo l → SortedList l
  | [], _ => trivial
  | v :: vs, h => ⟨sorted_of_WF fo v h.1, sortedList_of_WF fo vs h.2⟩
theorem sortedPairs_of_WF (fo : FloatOracle) : (l : List (String × JVal)) → WFPairs fo l → SortedPairs l
  | [], _ => trivial
  | (_, v) :: vs, h => ⟨sorted_of_WF fo v h.1, sortedPairs_of_WF fo vs h.2⟩
end

theorem stdInsertSorted_append (k : String) (v : StdVal) (acc : List (String × StdVal)) (h : ∀ p ∈ acc, p.1 < k) :
    stdInsertSorted k v acc = acc ++ [(k, v)] := by
  induction acc with
  | nil => rfl
  | cons p rest ih =>
    obtain ⟨k', v'⟩ := p
    have hlt : k' < k := h (k', v') (by simp)
    have hne : (k == k') = false := by
      cases hb : k == k' with
      | false => rfl
      | true => rw [beq_iff_eq] at hb; subst hb; exact absurd hlt (String.lt_irrefl _)
    have hnl : strLt k k' = false := by
      unfold strLt
      simp only [decide_eq_false_iff_not]
      exact String.lt_asymm hlt
    simp only [stdInsertSorted, hne, hnl, Bool.false_eq_true, if_false, List.cons_append]
    rw [ih (fun p hp => h p (by simp [hp]))]

theorem foldl_stdInsertSorted (kvs acc : List (String × StdVal)) (h : ((acc ++ kvs).map Prod.fst).Pairwise (· < ·)) :
    kvs.foldl (fun acc (p : String × StdVal) => stdInsertSorted p.1 p.2 acc) acc = acc ++ kvs := by
  induction kvs generalizing acc with
  | nil => simp
  | cons p rest ih =>
    obtain ⟨k, v⟩ := p
    simp only [List.foldl_cons]
    have hall : ∀ q ∈ acc, q.1 < k := by
      intro q hq
      rw [List.map_append, List.pairwise_append] at h
      exact h.2.2 q.1 (List.mem_map_of_mem hq) k (by simp)
    rw [stdInsertSorted_append k v acc hall, ih (acc ++ [(k, v)]) (by simpa using h)]
    simp

theorem stdMkObj_sorted (kvs : List (String × StdVal)) (h : (kvs.map Prod.fst).Pairwise (· < ·)) :
    StdVal.mkObj kvs = .object kvs := by
  unfold StdVal.mkObj
  congr 1
  have := foldl_stdInsertSorted kvs [] (by simpa using h)
  simpa using this

theorem keys_fromStdPairs (kvs : List (String × StdVal)) : (fromStdPairs kvs).map Prod.fst = kvs.map Prod.fst := by
  induction kvs with
  | nil => simp [fromStdPairs]
  | cons p rest ih => obtain ⟨k, v⟩ := p; simp [fromStdPairs, ih]

theorem keys_toStdPairs (kvs : List (String × JVal)) : (toStdPairs kvs).map Prod.fst = kvs.map Prod.fst := by
  induction kvs with
  | nil => simp [toStdPairs]
  | cons p rest ih => obtain ⟨k, v⟩ := p; simp [toStdPairs, ih]

theorem fromStd_object (kvs : List (String × StdVal)) (h : (kvs.map Prod.fst).Pairwise (· < ·)) :
    fromStd (.object kvs) = .obj (fromStdPairs kvs) := by
  simp only [fromStd]
  exact mkObj_sorted _ (by unfold KeysSorted; rw [keys_fromStdPairs]; exact h)

theorem toStd_obj (kvs : List (String × JVal)) (h : KeysSorted kvs) :
    toStd (.obj kvs) = .object (toStdPairs kvs) := by
  simp only [toStd]
  exact stdMkObj_sorted _ (by rw [keys_toStdPairs]; exact h)

mutual
theorem toStd_fromStd : (s : StdVal) → StdWF s → toStd (fromStd s) = s
  | .null, _ => by simp [fromStd, toStd]
  | .bool _, _ => by simp [fromStd, toStd]
  | .number (.posInt n), _ => by simp [fromStd, toStd, StdNum.ofInt]
  | .number (.negInt i), h => by
    have h' : i < 0 := h
    have : ¬ 0 ≤ i := by omega
    simp [fromStd, toStd, StdNum.ofInt, this]
  | .number (.float r), _ => by simp [fromStd, toStd]
  | .string _, _ => by simp [fromStd, toStd]
  | .array l, h => by
    simp only [fromStd, toStd]
    rw [toStdList_fromStdList l h]
  | .object kvs, h => by
    rw [fromStd_object kvs h.2, toStd_obj _ (by unfold KeysSorted; rw [keys_fromStdPairs]; exact h.2),
      toStdPairs_fromStdPairs kvs h.1]
theorem toStdList_fromStdList : (l : List StdVal) → StdWFList l → toStdList (fromStdList l) = l
  | [], _ => by simp [fromStdList, toStdList]
  | v :: vs, h => by
    simp only [fromStdList, toStdList]
    rw [toStd_fromStd v h.1, toStdList_fromStdList vs h.2]
theorem toStdPairs_fromStdPairs : (l : List (String × StdVal)) → StdWFPairs l → toStdPairs (fromStdPairs l) = l
  | [], _ => by simp [fromStdPairs, toStdPairs]
  | (k, v) :: vs, h => by
    simp only [fromStdPairs, toStdPairs]
    rw [toStd_fromStd v h.1, toStdPairs_fromStdPairs vs h.2]
end

mutual
theorem fromStd_toStd : (v : JVal) → Sorted v → fromStd (toStd v) = v
  | .null, _ => by simp [fromStd, toStd]
  | .bool _, _ => by simp [fromStd, toStd]
  | .num i, _ => by
    by_cases h : 0 ≤ i
    · simp only [toStd, StdNum.ofInt, h, if_true, fromStd]; congr 1; omega
    · simp [toStd, StdNum.ofInt, h, fromStd]
  | .float _, _ => by simp [fromStd, toStd]
  | .str _, _ => by simp [fromStd, toStd]
  | .arr l, h => by
    simp only [fromStd, toStd]
    rw [fromStdList_toStdList l h]
  | .obj kvs, h => by
    rw [toStd_obj kvs h.2, fromStd_object _ (by rw [keys_toStdPairs]; exact h.2), fromStdPairs_toStdPairs kvs h.1]
theorem fromStdList_toStdList : (l : List JVal) → SortedList l → fromStdList (toStdList l) = l
  | [], _ => by simp [fromStdList, toStdList]
  | v :: vs, h => by
    simp only [fromStdList, toStdList]
    rw [fromStd_toStd v h.1, fromStdList_toStdList vs h.2]
theorem fromStdPairs_toStdPairs : (l : List (String × JVal)) → SortedPairs l → fromStdPairs (toStdPairs l) = l
  | [], _ => by simp [fromStdPairs, toStdPairs]
  | (k, v) :: vs, h => by
    simp only [fromStdPairs, toStdPairs]
    rw [fromStd_toStd v h.1, fromStdPairs_toStdPairs vs h.2]
end

mutual
theorem render_fromStd : (s : StdVal) → StdWF s → JVal.render (fromStd s) = StdVal.render s
  | .null, _ => by simp [fromStd, JVal.render, StdVal.render]
  | .bool b, _ => by cases b <;> simp [fromStd, JVal.render, StdVal.render]
  | .number (.posInt n), _ => by simp [fromStd, JVal.render, StdVal.render, StdNum.render]
  | .number (.negInt i), _ => by simp [fromStd, JVal.render, StdVal.render, StdNum.render]
  | .number (.float r), _ => by simp [fromStd, JVal.render, StdVal.render, StdNum.render]
  | .string _, _ => by simp [fromStd, JVal.render, StdVal.render]
  | .array l, h => by
    simp only [fromStd, JVal.render, StdVal.render]
    rw [renderList_fromStd l h]
  | .object kvs, h => by
    rw [fromStd_object kvs h.2]
    simp only [JVal.render, StdVal.render]
    rw [renderPairs_fromStd kvs h.1]
theorem renderList_fromStd : (l : List StdVal) → StdWFList l → JVal.renderList (fromStdList l) = StdVal.renderList l
  | [], _ => by simp [fromStdList, JVal.renderList, StdVal.renderList]
  | [v], h => by
    simp only [fromStdList, JVal.renderList, StdVal.renderList]
    exact render_fromStd v h.1
  | v :: v' :: vs, h => by
    have ih := renderList_fromStd (v' :: vs) h.2
    simp only [fromStdList] at ih
    simp only [fromStdList, JVal.renderList, StdVal.renderList]
    rw [render_fromStd v h.1, ih]
theorem renderPairs_fromStd : (l : List (String × StdVal)) → StdWFPairs l → JVal.renderPairs (fromStdPairs l) = StdVal.renderPairs l
  | [], _ => by simp [fromStdPairs, JVal.renderPairs, StdVal.renderPairs]
  | [(k, v)], h => by
    simp only [fromStdPairs, JVal.renderPairs, StdVal.renderPairs]
    rw [render_fromStd v h.1]
  | (k, v) :: (k', v') :: vs, h => by
    have ih := renderPairs_fromStd ((k', v') :: vs) h.2
    simp only [fromStdPairs] at ih
    simp only [fromStdPairs, JVal.renderPairs, StdVal.renderPairs]
    rw [render_fromStd v h.1, ih]
end

mutual
theorem valEq_fromStd : (s t : StdVal) → StdWF s → StdWF t → JVal.valEq (fromStd s) (fromStd t) = StdVal.valEq s t
  | .null, t, _, _ => by
    cases t with
    | number m => cases m <;> simp [fromStd, JVal.valEq, StdVal.valEq]
    | _ => simp [fromStd, JVal.valEq, StdVal.valEq, JVal.mkObj]
  | .bool _, t, _, _ => by
    cases t with
    | number m => cases m <;> simp [fromStd, JVal.valEq, StdVal.valEq]
    | _ => simp [fromStd, JVal.valEq, StdVal.valEq, JVal.mkObj]
  | .string _, t, _, _ => by
    cases t with
    | number m => cases m <;> simp [fromStd, JVal.valEq, StdVal.valEq]
    | _ => simp [fromStd, JVal.valEq, StdVal.valEq, JVal.mkObj]
  | .number n, t, hs, ht => by
    cases t with
    | number m =>
      cases n with
      | posInt a =>
        cases m with
        | posInt b =>
          simp only [fromStd, JVal.valEq, StdVal.valEq, StdNum.valEq]
          by_cases hab : a = b
          · subst hab; simp
          · have h1 : ((a : Int) == (b : Int)) = false := by
              cases hq : ((a : Int) == (b : Int)) with
              | false => rfl
              | true => rw [beq_iff_eq] at hq; omega
            have h2 : (a == b) = false := by
              cases hq : (a == b) with
              | false => rfl
              | true => rw [beq_iff_eq] at hq; exact absurd hq hab
            rw [h1, h2]
        | negInt b => have hb : b < 0 := ht; simp [fromStd, JVal.valEq, StdVal.valEq, StdNum.valEq]; omega
        | float r => simp [fromStd, JVal.valEq, StdVal.valEq, StdNum.valEq]
      | negInt a =>
        cases m with
        | posInt b => have ha : a < 0 := hs; simp [fromStd, JVal.valEq, StdVal.valEq, StdNum.valEq]; omega
        | negInt b => simp [fromStd, JVal.valEq, StdVal.valEq, StdNum.valEq]
        | float r => simp [fromStd, JVal.valEq, StdVal.valEq, StdNum.valEq]
      | float r => cases m <;> simp [fromStd, JVal.valEq, StdVal.valEq, StdNum.valEq]
    | _ => cases n <;> simp [fromStd, JVal.valEq, StdVal.valEq, JVal.mkObj]
  | .array l, t, hs, ht => by
    cases t with
    | array l' => simp only [fromStd, JVal.valEq, StdVal.valEq]; exact valEqList_fromStd l l' hs ht
    | number n => cases n <;> simp [fromStd, JVal.valEq, StdVal.valEq]
    | _ => simp [fromStd, JVal.valEq, StdVal.valEq, JVal.mkObj]
  | .object kvs, t, hs, ht => by
    cases t with
    | object kvs' =>
      rw [fromStd_object kvs hs.2, fromStd_object kvs' ht.2]
      simp only [JVal.valEq, StdVal.valEq]; exact valEqPairs_fromStd kvs kvs' hs.1 ht.1
    | number n => cases n <;> simp [fromStd, JVal.valEq, StdVal.valEq, JVal.mkObj]
    | _ => simp [fromStd, JVal.valEq, StdVal.valEq, JVal.mkObj]
theorem valEqList_fromStd : (a b : List StdVal) → StdWFList a → StdWFList b →
    JVal.valEqList (fromStdList a) (fromStdList b) = StdVal.valEqList a b
  | [], b, _, _ => by cases b <;> simp [fromStdList, JVal.valEqList, StdVal.valEqList]
  | x :: xs, b, ha, hb => by
    cases b with
    | nil => simp [fromStdList, JVal.valEqList, StdVal.valEqList]
    | cons y ys =>
      simp only [fromStdList, JVal.valEqList, StdVal.valEqList]
      rw [valEq_fromStd x y ha.1 hb.1, valEqList_fromStd xs ys ha.2 hb.2]
theorem valEqPairs_fromStd : (a b : List (String × StdVal)) → StdWFPairs a → StdWFPairs b →
    JVal.valEqPairs (fromStdPairs a) (fromStdPairs b) = StdVal.valEqPairs a b
  | [], b, _, _ => by
    cases b with
    | nil => simp [fromStdPairs, JVal.valEqPairs, StdVal.valEqPairs]
    | cons p ys => obtain ⟨k', y⟩ := p; simp [fromStdPairs, JVal.valEqPairs, StdVal.valEqPairs]
  | (k, x) :: xs, b, ha, hb => by
    cases b with
    | nil => simp [fromStdPairs, JVal.valEqPairs, StdVal.valEqPairs]
    | cons p ys =>
      obtain ⟨k', y⟩ := p
      simp only [fromStdPairs, JVal.valEqPairs, StdVal.valEqPairs]
      rw [valEq_fromStd x y ha.1 hb.1, valEqPairs_fromStd xs ys ha.2 hb.2]
end

mutual
theorem stdWF_toStd : (v : JVal) → Sorted v → StdWF (toStd v)
  | .null, _ => by simp [toStd, StdWF]
  | .bool _, _ => by simp [toStd, StdWF]
  | .num i, _ => by
    by_cases h : 0 ≤ i
    · simp [toStd, StdNum.ofInt, h, StdWF]
    · simp only [toStd, StdNum.ofInt, h, if_false, StdWF]; omega
  | .float _, _ => by simp [toStd, StdWF]
  | .str _, _ => by simp [toStd, StdWF]
  | .arr l, h => by simp only [toStd, StdWF]; exact stdWFList_toStd l h
  | .obj kvs, h => by
    rw [toStd_obj kvs h.2]
    simp only [StdWF]
    exact ⟨stdWFPairs_toStd kvs h.1, by rw [keys_toStdPairs]; exact h.2⟩
theorem stdWFList_toStd : (l : List JVal) → SortedList l → StdWFList (toStdList l)
  | [], _ => by simp [toStdList, StdWFList]
  | v :: vs, h => by simp only [toStdList, StdWFList]; exact ⟨stdWF_toStd v h.1, stdWFList_toStd vs h.2⟩
theorem stdWFPairs_toStd : (l : List (String × JVal)) → SortedPairs l → StdWFPairs (toStdPairs l)
  | [], _ => by simp [toStdPairs, StdWFPairs]
  | (k, v) :: vs, h => by simp only [toStdPairs, StdWFPairs]; exact ⟨stdWF_toStd v h.1, stdWFPairs_toStd vs h.2⟩
end

end AquaProps.JsonLemmas
