import Aqua.Exec.Run
/-!
Panic logic (DESIGN.md §4.2 "panics are values", property C01).

`ResIn L r`  — if the result `r` is a panic, its site is in the list `L`.
`PIn L Q m`  — for every context: if `m` panics, the site is in `L`; if it returns a value, the value
               satisfies `Q` (needed because `tryM` hands a captured result to `reraise`).
The combinator lemmas below follow the combinators of `Aqua/Exec/Monad.lean` one by one, so that a
statement about an instruction is proved by walking its definition.
-/
namespace AquaProps.Panic
open Aqua Aqua.Exec Aqua.Air Aqua.Trace

variable {ε ε' α β : Type} {L : List String}

def ResIn (L : List String) (r : Res ε α) : Prop := ∀ s, r = .panic s → s ∈ L

theorem resIn_ok (a : α) : ResIn L (.ok a : Res ε α) := fun _ h => by cases h
theorem resIn_error (e : ε) : ResIn L (.error e : Res ε α) := fun _ h => by cases h
theorem resIn_pure (a : α) : ResIn L (pure a : Res ε α) := fun _ h => by cases h
theorem resIn_panic {s : String} (h : s ∈ L) : ResIn L (.panic s : Res ε α) := fun _ h' => by cases h'; exact h

theorem resIn_bind {x : Res ε α} {f : α → Res ε β} (hx : ResIn L x) (hf : ∀ a, x = .ok a → ResIn L (f a)) :
    ResIn L (x >>= f) := by
  intro s h
  cases x with
  | ok a => exact hf a rfl s h
  | error e => cases h
  | panic s' => cases h; exact hx _ rfl

theorem resIn_bind' {x : Res ε α} {f : α → Res ε β} (hx : ResIn L x) (hf : ∀ a, ResIn L (f a)) :
    ResIn L (x >>= f) := resIn_bind hx fun a _ => hf a

theorem resIn_rbind {x : Res ε α} {f : α → Res ε β} (hx : ResIn L x) (hf : ∀ a, ResIn L (f a)) :
    ResIn L (x.bind f) := resIn_bind' (f := f) hx hf

theorem resIn_mapErr {x : Res ε α} (f : ε → ε') (hx : ResIn L x) : ResIn L (x.mapErr f) := by
  intro s h
  cases x with
  | ok a => cases h
  | error e => cases h
  | panic s' => cases h; exact hx _ rfl

theorem resIn_mono {L' : List String} {x : Res ε α} (h : ∀ s ∈ L, s ∈ L') (hx : ResIn L x) : ResIn L' x :=
  fun s hs => h s (hx s hs)

theorem resIn_unwrap {site : String} (h : site ∈ L) (o : Option α) : ResIn L (Res.unwrap site o : Res ε α) := by
  cases o with
  | some a => exact resIn_ok a
  | none => exact resIn_panic h

theorem resIn_ofOption (e : ε) (o : Option α) : ResIn L (Res.ofOption e o) := by
  cases o <;> simp [Res.ofOption] <;> first | exact resIn_ok _ | exact resIn_error _

theorem resIn_addU32 {site : String} (h : site ∈ L) (a b : Nat) : ResIn L (addU32 site a b : Res ε Nat) := by
  unfold addU32; split
  · exact resIn_panic h
  · exact resIn_ok _

theorem resIn_subU32 {site : String} (h : site ∈ L) (a b : Nat) : ResIn L (subU32 site a b : Res ε Nat) := by
  unfold subU32; split
  · exact resIn_panic h
  · exact resIn_ok _

/-! ## the execution monad -/

def PIn (L : List String) (Q : α → Prop) (m : M α) : Prop :=
  ∀ c, (∀ s, (m c).1 = .panic s → s ∈ L) ∧ (∀ a, (m c).1 = .ok a → Q a)

abbrev PIn' (L : List String) (m : M α) : Prop := PIn L (fun _ => True) m

theorem pin_weaken {Q Q' : α → Prop} {m : M α} (h : PIn L Q m) (hq : ∀ a, Q a → Q' a) : PIn L Q' m :=
  fun c => ⟨(h c).1, fun a ha => hq a ((h c).2 a ha)⟩

theorem pin_true {Q : α → Prop} {m : M α} (h : PIn L Q m) : PIn' L m := pin_weaken h fun _ _ => trivial

theorem pin_pure {Q : α → Prop} (a : α) (h : Q a) : PIn L Q (pure a : M α) :=
  fun _ => ⟨fun _ h' => (by cases h'), fun _ h' => (by cases h'; exact h)⟩

theorem pin_bind {Q : α → Prop} {Q' : β → Prop} {m : M α} {f : α → M β} (hm : PIn L Q m)
    (hf : ∀ a, Q a → PIn L Q' (f a)) : PIn L Q' (m >>= f) := by
  intro c
  show (∀ s, (M.bind m f c).1 = .panic s → s ∈ L) ∧ (∀ b, (M.bind m f c).1 = .ok b → Q' b)
  unfold M.bind
  have h1 := hm c
  cases hmc : m c with
  | mk r c' =>
    rw [hmc] at h1
    cases r with
    | ok a => exact hf a (h1.2 a rfl) c'
    | error e => exact ⟨fun _ h => (by cases h), fun _ h => (by cases h)⟩
    | panic s => exact ⟨fun s' h => (by cases h; exact h1.1 _ rfl), fun _ h => (by cases h)⟩

/-- bind when nothing is known (or needed) about the intermediate value -/
theorem pin_bind' {Q : α → Prop} {Q' : β → Prop} {m : M α} {f : α → M β} (hm : PIn L Q m)
    (hf : ∀ a, PIn L Q' (f a)) : PIn L Q' (m >>= f) := pin_bind hm fun a _ => hf a

theorem pin_readER {f : Ctx → ER α} (h : ∀ c, ResIn L (f c)) : PIn' L (readER f) :=
  fun c => ⟨fun s hs => h c s hs, fun _ _ => trivial⟩
theorem pin_readCtx (f : Ctx → α) : PIn' L (readCtx f) :=
  fun _ => ⟨fun _ h => (by cases h), fun _ _ => trivial⟩
theorem pin_modifyCtx (f : Ctx → Ctx) : PIn' L (modifyCtx f) :=
  fun _ => ⟨fun _ h => (by cases h), fun _ _ => trivial⟩
theorem pin_throwE {Q : α → Prop} (e : ExecErr) : PIn L Q (throwE e : M α) :=
  fun _ => ⟨fun _ h => (by cases h), fun _ h => (by cases h)⟩
theorem pin_panicM {Q : α → Prop} {s : String} (h : s ∈ L) : PIn L Q (panicM s : M α) :=
  fun _ => ⟨fun _ h' => (by cases h'; exact h), fun _ h' => (by cases h')⟩

theorem pin_modifyER {f : Ctx → ER Ctx} (h : ∀ c, ResIn L (f c)) : PIn' L (modifyER f) := by
  intro c
  unfold modifyER
  cases hf : f c with
  | ok c' => exact ⟨fun _ h' => (by cases h'), fun _ _ => trivial⟩
  | error e => exact ⟨fun _ h' => (by cases h'), fun _ _ => trivial⟩
  | panic s => exact ⟨fun s' h' => (by cases h'; exact h c s hf), fun _ _ => trivial⟩

theorem pin_stateER {f : Ctx → ER (α × Ctx)} (h : ∀ c, ResIn L (f c)) : PIn' L (stateER f) := by
  intro c
  unfold stateER
  cases hf : f c with
  | ok p => exact ⟨fun _ h' => (by cases h'), fun _ _ => trivial⟩
  | error e => exact ⟨fun _ h' => (by cases h'), fun _ _ => trivial⟩
  | panic s => exact ⟨fun s' h' => (by cases h'; exact h c s hf), fun _ _ => trivial⟩

/-- `tryM` never panics itself; the captured result carries the panic bound -/
theorem pin_tryM {Q : α → Prop} {m : M α} (hm : PIn L Q m) : PIn L (ResIn L) (tryM m) := by
  intro c
  unfold tryM
  refine ⟨fun _ h => (by cases h), fun r h => ?_⟩
  cases h
  exact fun s hs => (hm c).1 s hs

theorem pin_reraise {r : Res ExecErr α} (h : ResIn L r) : PIn' L (reraise r) :=
  fun _ => ⟨fun s hs => h s hs, fun _ _ => trivial⟩

theorem pin_joinable {Q : α → Prop} {m : M α} (hm : PIn L Q m) : PIn' L (joinable m) := by
  intro c
  unfold joinable
  have h1 := hm c
  cases hmc : m c with
  | mk r c' =>
    rw [hmc] at h1
    cases r with
    | ok a => exact ⟨fun _ h => (by cases h), fun _ _ => trivial⟩
    | error e =>
      simp only
      split
      · exact ⟨fun _ h => (by cases h), fun _ _ => trivial⟩
      · exact ⟨fun _ h => (by cases h), fun _ _ => trivial⟩
    | panic s => exact ⟨fun s' h => (by cases h; exact h1.1 _ rfl), fun _ _ => trivial⟩

theorem pin_onError {Q : α → Prop} {m : M α} (f : ExecErr → Ctx → Ctx) (hm : PIn L Q m) : PIn L Q (onError m f) := by
  intro c
  unfold onError
  have h1 := hm c
  cases hmc : m c with
  | mk r c' =>
    rw [hmc] at h1
    cases r with
    | ok a => exact h1
    | error e => exact ⟨fun _ h => (by cases h), fun _ h => (by cases h)⟩
    | panic s => exact h1

theorem resIn_traceToExec {r : TR α} (i : Instr) (h : ResIn L r) : ResIn L (traceToExec r i) := by
  unfold traceToExec; exact resIn_mapErr _ h

theorem pin_liftTH {f : TraceHandler → TR (α × TraceHandler)} (i : Instr) (h : ∀ th, ResIn L (f th)) : PIn' L (liftTH i f) := by
  unfold liftTH
  apply pin_stateER
  intro c
  exact resIn_rbind (resIn_traceToExec i (h c.th)) fun _ => resIn_ok _

theorem pin_liftTH' {f : TraceHandler → TR TraceHandler} (i : Instr) (h : ∀ th, ResIn L (f th)) : PIn' L (liftTH' i f) := by
  unfold liftTH'
  apply pin_liftTH
  intro th
  exact resIn_rbind (h th) fun _ => resIn_ok _

theorem pin_makeSubgraphIncomplete : PIn' L makeSubgraphIncomplete := pin_modifyCtx _
theorem pin_meetCallEnd (cr : Data.CallResult) : PIn' L (meetCallEnd cr) := pin_modifyCtx _

end AquaProps.Panic
