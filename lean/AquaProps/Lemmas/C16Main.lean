import AquaProps.Lemmas.C16Sim
/-!
# C16 lemmas, part 5: the induction over the interpreter (flat sub-fragment)
-/
set_option linter.unusedSimpArgs false
set_option linter.unusedVariables false
namespace AquaProps.C16
open Aqua Aqua.Json Aqua.Air Aqua.Exec Aqua.Ref

/-- the induction hypothesis: the simulation statement at a given fuel -/
def IH (O : Oracle) (env : Env) (p : Params) (cs : CidState) (T1 T2 : Data.Trace) (fuel : Nat) : Prop :=
  ∀ (up : Bool) (i : Instr) (c : Ctx) (s : State), FragA i = true → Inv p cs T1 T2 c s →
    NoAbort (eval O p fuel up i s).1 → ∀ r c', exec env fuel i c = (r, c') →
      SimPost p cs T1 T2 r c' (eval O p fuel up i s)

theorem noAbort_of_eq {o : Outcome} (h : NoAbort o) {w : String} (he : o = .abort w) : False := h w he

theorem seq_sim {O : Oracle} {env : Env} {p : Params} {cs : CidState} {T1 T2 : Data.Trace} {fuel : Nat}
    (ih : IH O env p cs T1 T2 fuel) (up : Bool) (l r : Instr) (c : Ctx) (s : State)
    (hl : FragA l = true) (hr : FragA r = true) (hinv : Inv p cs T1 T2 c s)
    (hna : NoAbort (eval O p (fuel + 1) up (.seq l r) s).1)
    (res : Res ExecErr Unit) (c' : Ctx) (h : execInner env fuel (.seq l r) c = (res, c')) :
    SimPost p cs T1 T2 res c' (eval O p (fuel + 1) up (.seq l r) s) := by
  simp only [execInner, bind_run, modifyCtx, readCtx] at h
  simp only [eval] at hna ⊢
  have hinv0 : Inv p cs T1 T2 { c with subgraphComplete := true } s := hinv.congr (sameCore_flag c true)
  obtain ⟨hflat1, hext1⟩ := eval_ext O p fuel false l s hl hinv.flatS
  generalize he1 : eval O p fuel false l s = e1 at hna hflat1 hext1 ⊢
  obtain ⟨o1, s1⟩ := e1
  have hna1 : NoAbort (eval O p fuel false l s).1 := by
    rw [he1]; intro w hw; simp only at hw; subst hw; exact hna w rfl
  cases hx : exec env fuel l { c with subgraphComplete := true } with
  | mk r1 c1 =>
    have hp1 := ih false l _ s hl hinv0 hna1 r1 c1 hx
    rw [he1] at hp1
    simp only [hx] at h
    -- whatever the reference side does next extends `s1`
    have hmono : ∀ (c2 : Ctx), Inv p cs T1 T2 c2 s1 →
        Inv p cs T1 T2 c2 (match (o1, s1) with | (.done, s1) => eval O p fuel false r s1 | r1 => r1).2 := by
      intro c2 hi
      cases o1 with
      | done => obtain ⟨hf2, he2⟩ := eval_ext O p fuel false r s1 hr hflat1; exact hi.mono he2 hf2
      | blocked => exact hi
      | failed => exact hi
      | abort w => exact hi
    cases r1 with
    | ok u =>
      simp only at h
      by_cases hcomp : c1.subgraphComplete = true
      · simp only [hcomp, if_true] at h
        have hd := hp1.done rfl hcomp
        simp only at hd
        subst hd
        simp only at hna ⊢
        exact ih false r c1 s1 hr hp1.inv hna res c' h
      · simp only [hcomp, Bool.false_eq_true, if_false, pure, M.pure] at h
        injection h with h1 h2; subst h1; subst h2
        exact ⟨hmono _ hp1.inv, fun _ hc => absurd hc hcomp, fun ce h => nomatch h⟩
    | error e =>
      simp only at h
      injection h with h1 h2; subst h1; subst h2
      refine ⟨hmono _ hp1.inv, (fun h => nomatch h), fun ce h => ?_⟩
      have hf := hp1.failed ce h
      simp only at hf
      subst hf
      rfl
    | panic site =>
      simp only at h
      injection h with h1 h2; subst h1; subst h2
      exact ⟨hmono _ hp1.inv, (fun h => nomatch h), (fun ce h => nomatch h)⟩

theorem xor_sim {O : Oracle} {env : Env} {p : Params} {cs : CidState} {T1 T2 : Data.Trace} {fuel : Nat}
    (ih : IH O env p cs T1 T2 fuel) (up : Bool) (l r : Instr) (c : Ctx) (s : State)
    (hl : FragA l = true) (hr : FragA r = true) (hinv : Inv p cs T1 T2 c s)
    (hna : NoAbort (eval O p (fuel + 1) up (.xor l r) s).1)
    (res : Res ExecErr Unit) (c' : Ctx) (h : execInner env fuel (.xor l r) c = (res, c')) :
    SimPost p cs T1 T2 res c' (eval O p (fuel + 1) up (.xor l r) s) := by
  simp only [execInner, bind_run, modifyCtx, tryM] at h
  simp only [eval] at hna ⊢
  have hinv0 : Inv p cs T1 T2 { c with subgraphComplete := true } s := hinv.congr (sameCore_flag c true)
  obtain ⟨hflat1, hext1⟩ := eval_ext O p fuel false l s hl hinv.flatS
  generalize he1 : eval O p fuel false l s = e1 at hna hflat1 hext1 ⊢
  obtain ⟨o1, s1⟩ := e1
  have hna1 : NoAbort (eval O p fuel false l s).1 := by
    rw [he1]; intro w hw; simp only at hw; subst hw; exact hna w rfl
  cases hx : exec env fuel l { c with subgraphComplete := true } with
  | mk r1 c1 =>
    have hp1 := ih false l _ s hl hinv0 hna1 r1 c1 hx
    rw [he1] at hp1
    simp only [hx] at h
    have hmono : ∀ (c2 : Ctx), Inv p cs T1 T2 c2 s1 →
        Inv p cs T1 T2 c2 (match (o1, s1) with | (.failed, s1) => eval O p fuel false r s1 | r1 => r1).2 := by
      intro c2 hi
      cases o1 with
      | failed => obtain ⟨hf2, he2⟩ := eval_ext O p fuel false r s1 hr hflat1; exact hi.mono he2 hf2
      | blocked => exact hi
      | done => exact hi
      | abort w => exact hi
    cases r1 with
    | ok u =>
      simp only [reraise] at h
      injection h with h1 h2; subst h1; subst h2
      refine ⟨hmono _ hp1.inv, fun _ hc => ?_, (fun ce h => nomatch h)⟩
      have hd := hp1.done rfl hc
      simp only at hd
      subst hd
      rfl
    | error e =>
      cases e with
      | catchable ce =>
        simp only [reraise] at h
        have hf := hp1.failed ce rfl
        simp only at hf
        subst hf
        simp only at hna ⊢
        have hinv2 : Inv p cs T1 T2 (xorEnterRight ce c1) s1 := hp1.inv.congr (sameCore_xorEnterRight ce c1)
        cases hx2 : exec env fuel r (xorEnterRight ce c1) with
        | mk r2 c2 =>
          have hp2 := ih false r _ s1 hr hinv2 hna r2 c2 hx2
          simp only [bind_run, modifyCtx, tryM, hx2, reraise] at h
          injection h with h1 h2; subst h1; subst h2
          obtain ⟨hsame, hflag⟩ := sameCore_xorLeaveRight r2.isOk c2
          exact ⟨hp2.inv.congr hsame, fun hr hc => hp2.done hr (by rw [← hflag]; exact hc), hp2.failed⟩
      | uncatchable ue =>
        simp only [reraise] at h
        injection h with h1 h2; subst h1; subst h2
        exact ⟨hmono _ hp1.inv, (fun h => nomatch h), (fun ce h => nomatch h)⟩
      | unmodelled w =>
        simp only [reraise] at h
        injection h with h1 h2; subst h1; subst h2
        exact ⟨hmono _ hp1.inv, (fun h => nomatch h), (fun ce h => nomatch h)⟩
    | panic site =>
      simp only [reraise] at h
      injection h with h1 h2; subst h1; subst h2
      exact ⟨hmono _ hp1.inv, (fun h => nomatch h), (fun ce h => nomatch h)⟩

theorem liftTH'_run (i : Instr) (f : Trace.TraceHandler → Trace.TR Trace.TraceHandler) (c : Ctx) :
    liftTH' i f c = (match f c.th with
      | .ok th => (.ok (), { c with th := th })
      | .error e => (.error (.uncatchable (.traceError e i.render)), c)
      | .panic s => (.panic s, c)) := by
  unfold liftTH'
  rw [liftTH_run]
  cases f c.th <;> rfl

/-- one branch of a `par` -/
theorem execSubgraph_sim {O : Oracle} {env : Env} {p : Params} {cs : CidState} {T1 T2 : Data.Trace} {fuel : Nat}
    (ih : IH O env p cs T1 T2 fuel) (par sub : Instr) (t : Trace.SubgraphType) (c : Ctx) (s : State)
    (hsub : FragA sub = true) (hinv : Inv p cs T1 T2 c s)
    (hna : NoAbort (eval O p fuel true sub s).1)
    (res : Res ExecErr (Option ExecErr × Bool)) (c' : Ctx) (h : execSubgraph env fuel par sub t c = (res, c')) :
    Inv p cs T1 T2 c' (eval O p fuel true sub s).2 ∧
    (∀ b, res = .ok (none, b) → b = true → (eval O p fuel true sub s).1 = .done) ∧
    (∀ e b, res = .ok (some e, b) → (eval O p fuel true sub s).1 = .failed ∧ b = false) ∧
    (∀ e, res = .error e → ∀ ce, e ≠ .catchable ce) := by
  simp only [execSubgraph, bind_run, modifyCtx, tryM] at h
  have hinv0 : Inv p cs T1 T2 { c with subgraphComplete := !(isNext sub) } s := hinv.congr (sameCore_flag c _)
  cases hx : exec env fuel sub { c with subgraphComplete := !(isNext sub) } with
  | mk r1 c1 =>
    have hp1 := ih true sub _ s hsub hinv0 hna r1 c1 hx
    simp only [hx] at h
    cases r1 with
    | ok u =>
      simp only [liftTH'_run, bind_run, readCtx, pure, M.pure] at h
      cases hm : c1.th.meetParSubgraphEnd t with
      | ok th' =>
        simp only [hm] at h
        injection h with h1 h2; subst h1; subst h2
        refine ⟨hp1.inv.congr (sameCore_th _ _ (meetParSubgraphEnd_same _ _ _ hm)), ?_, (fun e b h => nomatch h), (fun e h => nomatch h)⟩
        intro b hb hbt
        injection hb with hb; injection hb with _ hb
        exact hp1.done rfl (by rw [← hbt, ← hb])
      | error e =>
        simp only [hm] at h
        injection h with h1 h2; subst h1; subst h2
        refine ⟨hp1.inv, (fun b h => nomatch h), (fun e b h => nomatch h), ?_⟩
        intro e' he' ce hce; injection he' with he'; subst he'; cases hce
      | panic site =>
        simp only [hm] at h
        injection h with h1 h2; subst h1; subst h2
        exact ⟨hp1.inv, (fun b h => nomatch h), (fun e b h => nomatch h), (fun e h => nomatch h)⟩
    | error e =>
      cases e with
      | catchable ce =>
        simp only [makeSubgraphIncomplete, liftTH'_run, bind_run, modifyCtx, readCtx, pure, M.pure] at h
        have hf := hp1.failed ce rfl
        have hinv1 : Inv p cs T1 T2 { c1 with subgraphComplete := false } (eval O p fuel true sub s).2 := hp1.inv.congr (sameCore_flag c1 false)
        cases hm : c1.th.meetParSubgraphEnd t with
        | ok th' =>
          simp only [hm] at h
          injection h with h1 h2; subst h1; subst h2
          refine ⟨hinv1.congr (sameCore_th _ _ (meetParSubgraphEnd_same _ _ _ hm)), (fun b h => nomatch h), ?_, (fun e h => nomatch h)⟩
          intro e b hb
          injection hb with hb; injection hb with _ hb
          exact ⟨hf, hb.symm⟩
        | error e =>
          simp only [hm] at h
          injection h with h1 h2; subst h1; subst h2
          refine ⟨hinv1, (fun b h => nomatch h), (fun e b h => nomatch h), ?_⟩
          intro e' he' ce' hce; injection he' with he'; subst he'; cases hce
        | panic site =>
          simp only [hm] at h
          injection h with h1 h2; subst h1; subst h2
          exact ⟨hinv1, (fun b h => nomatch h), (fun e b h => nomatch h), (fun e h => nomatch h)⟩
      | uncatchable ue =>
        simp only [makeSubgraphIncomplete, bind_run, modifyCtx, throwE] at h
        injection h with h1 h2; subst h1; subst h2
        refine ⟨hp1.inv.congr (sameCore_flag c1 false), (fun b h => nomatch h), (fun e b h => nomatch h), ?_⟩
        intro e' he' ce' hce; injection he' with he'; subst he'; cases hce
      | unmodelled w =>
        simp only [makeSubgraphIncomplete, bind_run, modifyCtx, throwE] at h
        injection h with h1 h2; subst h1; subst h2
        refine ⟨hp1.inv.congr (sameCore_flag c1 false), (fun b h => nomatch h), (fun e b h => nomatch h), ?_⟩
        intro e' he' ce' hce; injection he' with he'; subst he'; cases hce
    | panic site =>
      simp only [panicM] at h
      injection h with h1 h2; subst h1; subst h2
      exact ⟨hp1.inv, (fun b h => nomatch h), (fun e b h => nomatch h), (fun e h => nomatch h)⟩

/-- the reference `par`, given the two branch results (neither aborts) -/
def parOutcome (o1 o2 : Outcome) : Outcome :=
  match o1, o2 with
  | .failed, .failed => .failed
  | .done, _ | _, .done => .done
  | _, _ => .blocked

theorem eval_par_eq (O : Oracle) (p : Params) (fuel : Nat) (up : Bool) (l r : Instr) (s : State)
    (hna : NoAbort (eval O p (fuel + 1) up (.par l r) s).1) :
    NoAbort (eval O p fuel true l s).1 ∧ NoAbort (eval O p fuel true r (eval O p fuel true l s).2).1 ∧
    eval O p (fuel + 1) up (.par l r) s =
      (parOutcome (eval O p fuel true l s).1 (eval O p fuel true r (eval O p fuel true l s).2).1,
       (eval O p fuel true r (eval O p fuel true l s).2).2) := by
  simp only [eval] at hna ⊢
  generalize eval O p fuel true l s = e1 at hna ⊢
  obtain ⟨o1, s1⟩ := e1
  cases o1 with
  | abort w => exact absurd rfl (hna w)
  | done =>
    simp only at hna ⊢
    generalize eval O p fuel true r s1 = e2 at hna ⊢
    obtain ⟨o2, s2⟩ := e2
    cases o2 with
    | abort w => exact absurd rfl (hna w)
    | done => exact ⟨(fun w h => nomatch h), (fun w h => nomatch h), rfl⟩
    | blocked => exact ⟨(fun w h => nomatch h), (fun w h => nomatch h), rfl⟩
    | failed => exact ⟨(fun w h => nomatch h), (fun w h => nomatch h), rfl⟩
  | blocked =>
    simp only at hna ⊢
    generalize eval O p fuel true r s1 = e2 at hna ⊢
    obtain ⟨o2, s2⟩ := e2
    cases o2 with
    | abort w => exact absurd rfl (hna w)
    | done => exact ⟨(fun w h => nomatch h), (fun w h => nomatch h), rfl⟩
    | blocked => exact ⟨(fun w h => nomatch h), (fun w h => nomatch h), rfl⟩
    | failed => exact ⟨(fun w h => nomatch h), (fun w h => nomatch h), rfl⟩
  | failed =>
    simp only at hna ⊢
    generalize eval O p fuel true r s1 = e2 at hna ⊢
    obtain ⟨o2, s2⟩ := e2
    cases o2 with
    | abort w => exact absurd rfl (hna w)
    | done => exact ⟨(fun w h => nomatch h), (fun w h => nomatch h), rfl⟩
    | blocked => exact ⟨(fun w h => nomatch h), (fun w h => nomatch h), rfl⟩
    | failed => exact ⟨(fun w h => nomatch h), (fun w h => nomatch h), rfl⟩

theorem par_sim {O : Oracle} {env : Env} {p : Params} {cs : CidState} {T1 T2 : Data.Trace} {fuel : Nat}
    (ih : IH O env p cs T1 T2 fuel) (up : Bool) (l r : Instr) (c : Ctx) (s : State)
    (hl : FragA l = true) (hr : FragA r = true) (hinv : Inv p cs T1 T2 c s)
    (hna : NoAbort (eval O p (fuel + 1) up (.par l r) s).1)
    (res : Res ExecErr Unit) (c' : Ctx) (h : execInner env fuel (.par l r) c = (res, c')) :
    SimPost p cs T1 T2 res c' (eval O p (fuel + 1) up (.par l r) s) := by
  obtain ⟨hna1, hna2, heq⟩ := eval_par_eq O p fuel up l r s hna
  rw [heq]
  obtain ⟨hflat1, hext1⟩ := eval_ext O p fuel true l s hl hinv.flatS
  obtain ⟨hflat2, hext2⟩ := eval_ext O p fuel true r _ hr hflat1
  simp only [execInner, bind_run, liftTH'_run] at h
  cases hm : c.th.meetParStart with
  | ok th' =>
    simp only [hm] at h
    have hinv0 : Inv p cs T1 T2 { c with th := th' } s := hinv.congr (sameCore_th _ _ (meetParStart_same _ _ hm))
    cases hx1 : execSubgraph env fuel (.par l r) l .left { c with th := th' } with
    | mk r1 c1 =>
      obtain ⟨hi1, hd1, hf1, he1⟩ := execSubgraph_sim ih (.par l r) l .left _ s hl hinv0 hna1 r1 c1 hx1
      simp only [hx1] at h
      cases r1 with
      | ok left =>
        simp only at h
        cases hx2 : execSubgraph env fuel (.par l r) r .right c1 with
        | mk r2 c2 =>
          obtain ⟨hi2, hd2, hf2, he2⟩ := execSubgraph_sim ih (.par l r) r .right c1 _ hr hi1 hna2 r2 c2 hx2
          simp only [hx2] at h
          cases r2 with
          | ok right =>
            simp only [modifyCtx] at h
            obtain ⟨le, lb⟩ := left
            obtain ⟨re, rb⟩ := right
            have hdone : (lb || rb) = true → parOutcome (eval O p fuel true l s).1 (eval O p fuel true r (eval O p fuel true l s).2).1 = .done := by
              intro hb
              -- a complete branch did not fail, hence is done on the reference side
              have hle : lb = true → le = none := by
                intro hlb; cases le with
                | none => rfl
                | some e => have := (hf1 e lb rfl).2; rw [hlb] at this; cases this
              have hre : rb = true → re = none := by
                intro hrb; cases re with
                | none => rfl
                | some e => have := (hf2 e rb rfl).2; rw [hrb] at this; cases this
              cases hlb : lb with
              | true =>
                have := hd1 lb (by rw [hle hlb]) hlb
                rw [this]; unfold parOutcome
                cases (eval O p fuel true r (eval O p fuel true l s).2).1 <;> rfl
              | false =>
                rw [hlb] at hb
                have hrb : rb = true := by simpa using hb
                have := hd2 rb (by rw [hre hrb]) hrb
                rw [this]; unfold parOutcome
                cases (eval O p fuel true l s).1 <;> rfl
            cases le with
            | none =>
              simp only at h
              injection h with h1 h2; subst h1; subst h2
              exact ⟨hi2.congr ⟨rfl, rfl, rfl, rfl, rfl, rfl, HandlerSame.refl _, rfl⟩, fun _ hc => hdone hc, (fun ce h => nomatch h)⟩
            | some e1 =>
              cases re with
              | none =>
                simp only at h
                injection h with h1 h2; subst h1; subst h2
                exact ⟨hi2.congr ⟨rfl, rfl, rfl, rfl, rfl, rfl, HandlerSame.refl _, rfl⟩, fun _ hc => hdone hc, (fun ce h => nomatch h)⟩
              | some e2 =>
                simp only [throwE] at h
                injection h with h1 h2; subst h1; subst h2
                refine ⟨hi2.congr (sameCore_flag c2 _), (fun h => nomatch h), fun ce _ => ?_⟩
                rw [(hf1 e1 lb rfl).1, (hf2 e2 rb rfl).1]; rfl
          | error e =>
            simp only at h
            injection h with h1 h2; subst h1; subst h2
            exact ⟨hi2, (fun h => nomatch h), fun ce h => absurd (by injection h) (he2 e rfl ce)⟩
          | panic site =>
            simp only at h
            injection h with h1 h2; subst h1; subst h2
            exact ⟨hi2, (fun h => nomatch h), (fun ce h => nomatch h)⟩
      | error e =>
        simp only at h
        injection h with h1 h2; subst h1; subst h2
        exact ⟨hi1.mono hext2 hflat2, (fun h => nomatch h), fun ce h => absurd (by injection h) (he1 e rfl ce)⟩
      | panic site =>
        simp only at h
        injection h with h1 h2; subst h1; subst h2
        exact ⟨hi1.mono hext2 hflat2, (fun h => nomatch h), (fun ce h => nomatch h)⟩
  | error e =>
    simp only [hm] at h
    injection h with h1 h2; subst h1; subst h2
    exact ⟨hinv.mono (hext1.trans hext2) hflat2, (fun h => nomatch h), (fun ce h => nomatch h)⟩
  | panic site =>
    simp only [hm] at h
    injection h with h1 h2; subst h1; subst h2
    exact ⟨hinv.mono (hext1.trans hext2) hflat2, (fun h => nomatch h), (fun ce h => nomatch h)⟩

theorem joinable_readER_run {α : Type} (f : Ctx → ER α) (c : Ctx) :
    joinable (readER f) c = (match f c with
      | .ok a => (.ok (some a), c)
      | .error e => if e.isJoinable then (.ok none, { c with subgraphComplete := false }) else (.error e, c)
      | .panic s => (.panic s, c)) := by
  unfold joinable readER
  cases f c <;> rfl

/-- the reference `match`/`mismatch`, by the compared operands (`want` = the comparison result that runs the body) -/
theorem eval_match_eq (O : Oracle) (p : Params) (fuel : Nat) (up : Bool) (a b : Value) (body : Instr) (s : State)
    (ga gb : Got JVal) (ha : operand p s a = some ga) (hb : operand p s b = some gb) :
    eval O p (fuel + 1) up (.match_ a b body) s =
      (match ga.bind fun x => gb.bind fun y => Got.val (x == y) with
        | .undefined => (.blocked, s)
        | .error => (.failed, s)
        | .val true => eval O p fuel false body s
        | .val false => (.failed, s)) ∧
    eval O p (fuel + 1) up (.mismatch a b body) s =
      (match ga.bind fun x => gb.bind fun y => Got.val (x == y) with
        | .undefined => (.blocked, s)
        | .error => (.failed, s)
        | .val true => (.failed, s)
        | .val false => eval O p fuel false body s) := by
  simp only [eval, ha, hb]
  cases ga <;> cases gb <;> simp [Got.bind]
  all_goals (split <;> simp_all)

theorem match_sim {O : Oracle} {env : Env} {p : Params} {cs : CidState} {T1 T2 : Data.Trace} {fuel : Nat}
    (ih : IH O env p cs T1 T2 fuel) (up : Bool) (a b : Value) (body : Instr) (want : Bool) (c : Ctx) (s : State)
    (ha : FragV a = true) (hb : FragV b = true) (hbody : FragA body = true) (hinv : Inv p cs T1 T2 c s)
    (i : Instr) (hi : (want = true ∧ i = .match_ a b body) ∨ (want = false ∧ i = .mismatch a b body))
    (hna : NoAbort (eval O p (fuel + 1) up i s).1)
    (res : Res ExecErr Unit) (c' : Ctx) (h : execInner env fuel i c = (res, c')) :
    SimPost p cs T1 T2 res c' (eval O p (fuel + 1) up i s) := by
  obtain ⟨ga, gb, hga, hgb, hag⟩ := areMatchableEq_agrees hinv.flatC hinv.sub hinv.params a b ha hb
  obtain ⟨hm1, hm2⟩ := eval_match_eq O p fuel up a b body s ga gb hga hgb
  -- both instructions: run the body iff the comparison gives `want`
  have heval : eval O p (fuel + 1) up i s =
      (match ga.bind fun x => gb.bind fun y => Got.val (x == y) with
        | .undefined => (.blocked, s)
        | .error => (.failed, s)
        | .val v => if v = want then eval O p fuel false body s else (.failed, s)) := by
    rcases hi with ⟨hw, hi⟩ | ⟨hw, hi⟩ <;> subst hw <;> subst hi
    · rw [hm1]; cases (ga.bind fun x => gb.bind fun y => Got.val (x == y)) with
      | val v => cases v <;> rfl
      | undefined => rfl
      | error => rfl
    · rw [hm2]; cases (ga.bind fun x => gb.bind fun y => Got.val (x == y)) with
      | val v => cases v <;> rfl
      | undefined => rfl
      | error => rfl
  have hexec : execInner env fuel i c = (match joinable (readER fun c => areMatchableEq c a b) c with
      | (.ok none, c1) => (.ok (), c1)
      | (.ok (some v), c1) => if v = want then exec env fuel body c1 else
          (.error (.catchable (if want then .matchValuesNotEqual else .mismatchValuesEqual)), c1)
      | (.error e, c1) => (.error e, c1)
      | (.panic st, c1) => (.panic st, c1)) := by
    rcases hi with ⟨hw, hi⟩ | ⟨hw, hi⟩ <;> subst hw <;> subst hi
    · simp only [execInner, bind_run]
      cases joinable (readER fun c => areMatchableEq c a b) c with
      | mk r1 c1 => cases r1 with
        | ok o => cases o with
          | none => rfl
          | some v => cases v <;> rfl
        | error e => rfl
        | panic st => rfl
    · simp only [execInner, bind_run]
      cases joinable (readER fun c => areMatchableEq c a b) c with
      | mk r1 c1 => cases r1 with
        | ok o => cases o with
          | none => rfl
          | some v => cases v <;> rfl
        | error e => rfl
        | panic st => rfl
  rw [hexec, joinable_readER_run] at h
  rw [heval] at hna ⊢
  have hmono : ∀ v, Inv p cs T1 T2 c (if v = want then eval O p fuel false body s else (Outcome.failed, s)).2 := by
    intro v
    split
    · obtain ⟨hf, he⟩ := eval_ext O p fuel false body s hbody hinv.flatS; exact hinv.mono he hf
    · exact hinv
  cases hme : areMatchableEq c a b with
  | ok v =>
    rw [hme] at hag
    simp only [Agrees, id] at hag
    rw [hag] at hna ⊢
    simp only [hme] at h
    by_cases hv : v = want
    · simp only [hv, if_true] at h hna ⊢
      exact ih false body c s hbody hinv hna res c' h
    · simp only [hv, if_false] at h ⊢
      injection h with h1 h2; subst h1; subst h2
      exact ⟨hinv, (fun h => nomatch h), fun ce _ => rfl⟩
  | error e =>
    rw [hme] at hag
    simp only [hme] at h
    cases e with
    | catchable ce =>
      simp only [Agrees] at hag
      cases hj : ce.isJoinable with
      | true =>
        simp only [ExecErr.isJoinable, hj, if_true] at h
        injection h with h1 h2; subst h1; subst h2
        refine ⟨?_, (fun _ hc => nomatch hc), (fun ce h => nomatch h)⟩
        cases hg : (ga.bind fun x => gb.bind fun y => Got.val (x == y)) with
        | val v => exact (hmono v).congr (sameCore_flag c false)
        | undefined => exact hinv.congr (sameCore_flag c false)
        | error => exact hinv.congr (sameCore_flag c false)
      | false =>
        simp only [ExecErr.isJoinable, hj, Bool.false_eq_true, if_false] at h
        injection h with h1 h2; subst h1; subst h2
        rcases hag with hj' | hg
        · rw [hj] at hj'; cases hj'
        · rw [hg]
          exact ⟨hinv, (fun h => nomatch h), fun ce _ => rfl⟩
    | uncatchable _ => exact hag.elim
    | unmodelled _ => exact hag.elim
  | panic st => rw [hme] at hag; exact hag.elim

theorem ap_sim {O : Oracle} {env : Env} {p : Params} {cs : CidState} {T1 T2 : Data.Trace} {fuel : Nat}
    (up : Bool) (arg : Value) (name : String) (c : Ctx) (s : State)
    (ha : FragV arg = true) (hinv : Inv p cs T1 T2 c s)
    (hna : NoAbort (eval O p (fuel + 1) up (.ap arg (.scalar name)) s).1)
    (res : Res ExecErr Unit) (c' : Ctx) (h : execInner env fuel (.ap arg (.scalar name)) c = (res, c')) :
    SimPost p cs T1 T2 res c' (eval O p (fuel + 1) up (.ap arg (.scalar name)) s) := by
  obtain ⟨g, hg, hag⟩ := applyToArg_agrees hinv.flatC hinv.sub hinv.params arg ha
  simp only [execInner, execAp, bind_run, joinable_readER_run] at h
  simp only [eval, hg] at hna ⊢
  cases hat : applyToArg c arg with
  | ok va =>
    rw [hat] at hag
    simp only [Agrees] at hag
    subst hag
    simp only at hna ⊢
    have hcan : s.canBind name = true := by
      cases hc : s.canBind name with
      | true => rfl
      | false => simp only [hc] at hna; exact absurd rfl (hna _)
    simp only [hcan, if_true] at hna ⊢
    simp only [hat, setScalar, modifyER, withScalars] at h
    cases hss : c.scalars.setScalarValue name va with
    | ok sc =>
      simp only [hss, Res.bind] at h
      injection h with h1 h2; subst h1; subst h2
      obtain ⟨hflat, _, hsc⟩ := setScalarValue_flat hinv.flatC name va sc hss { c with scalars := sc } rfl
      refine ⟨?_, fun _ _ => rfl, (fun ce h => nomatch h)⟩
      exact {
        flatC := hflat, flatS := flat_bind hinv.flatS _ _,
        sub := by
          intro n va' hn
          rw [hsc n] at hn
          by_cases hnn : n = name
          · simp only [hnn, if_true] at hn
            injection hn with hn; subst hn
            rw [hnn]; exact lookup_bind_same hinv.flatS _ _
          · simp only [hnn, if_false] at hn
            rw [lookup_bind_other hinv.flatS name n _ hnn]
            exact hinv.sub n va' hn
        params := ⟨hinv.params.init, hinv.params.ts, hinv.params.ttl⟩, noResults := hinv.noResults, cid := hinv.cid,
        ptrace := hinv.ptrace, ctrace := hinv.ctrace,
        reqs := fun x hx => (ext_bind hinv.flatS name _ hcan).mem_calls (hinv.reqs x hx) }
    | error e =>
      simp only [hss, Res.bind] at h
      injection h with h1 h2; subst h1; subst h2
      refine ⟨hinv.mono (ext_bind hinv.flatS name _ hcan) (flat_bind hinv.flatS _ _), (fun h => nomatch h), fun ce h => ?_⟩
      injection h with h
      exact absurd h (setScalarValue_error hss ce)
    | panic st =>
      simp only [hss, Res.bind] at h
      injection h with h1 h2; subst h1; subst h2
      exact ⟨hinv.mono (ext_bind hinv.flatS name _ hcan) (flat_bind hinv.flatS _ _), (fun h => nomatch h), (fun ce h => nomatch h)⟩
  | error e =>
    rw [hat] at hag
    simp only [hat] at h
    -- whatever the reference side did, it extended `s`
    have hmono : Inv p cs T1 T2 c (match (some g : Option (Got JVal)) with
        | none => (Outcome.abort "operand outside the fragment", s)
        | some .undefined => (.blocked, s)
        | some .error => (.failed, s)
        | some (.val v) => if s.canBind name then (.done, s.bind name v) else (.abort ("scalar bound twice: " ++ name), s)).2 := by
      cases g with
      | undefined => exact hinv
      | error => exact hinv
      | val v =>
        simp only
        split
        · rename_i hc; exact hinv.mono (ext_bind hinv.flatS name _ hc) (flat_bind hinv.flatS _ _)
        · exact hinv
    cases e with
    | catchable ce =>
      simp only [Agrees] at hag
      cases hj : ce.isJoinable with
      | true =>
        simp only [ExecErr.isJoinable, hj, if_true, pure, M.pure] at h
        injection h with h1 h2; subst h1; subst h2
        exact ⟨hmono.congr (sameCore_flag c false), (fun _ hc => nomatch hc), (fun ce h => nomatch h)⟩
      | false =>
        simp only [ExecErr.isJoinable, hj, Bool.false_eq_true, if_false] at h
        injection h with h1 h2; subst h1; subst h2
        rcases hag with hj' | hg'
        · rw [hj] at hj'; cases hj'
        · subst hg'
          exact ⟨hinv, (fun h => nomatch h), fun ce _ => rfl⟩
    | uncatchable _ => exact hag.elim
    | unmodelled _ => exact hag.elim
  | panic st => rw [hat] at hag; exact hag.elim

theorem onError_sim {p : Params} {cs : CidState} {T1 T2 : Data.Trace} (m : M Unit) (i : Instr) (c : Ctx) (e : Outcome × State)
    (hm : ∀ r c', m c = (r, c') → SimPost p cs T1 T2 r c' e)
    (r : Res ExecErr Unit) (c' : Ctx) (h : onError m (fun e c => c.setErrorsOf e i) c = (r, c')) :
    SimPost p cs T1 T2 r c' e := by
  unfold onError at h
  cases hmc : m c with
  | mk r1 c1 =>
    have hp := hm r1 c1 hmc
    simp only [hmc] at h
    cases r1 with
    | ok u => injection h with h1 h2; subst h1; subst h2; exact hp
    | error er =>
      simp only at h
      injection h with h1 h2; subst h1; subst h2
      exact ⟨hp.inv.congr (sameCore_setErrorsOf _ _ _), (fun h => nomatch h), hp.failed⟩
    | panic st => injection h with h1 h2; subst h1; subst h2; exact hp

/-- **the simulation**: for every fuel, every instruction of the flat fragment, every context / reference
state related by the invariant, if the reference evaluator does not abort then the executor's run
preserves the invariant (in particular every request it issues is a call of the reference evaluator) and
its result agrees with the reference outcome -/
theorem exec_sim {O : Oracle} {env : Env} {p : Params} {cs : CidState} {T1 T2 : Data.Trace}
    (hgood : ∀ st, st ∈ T1 ∨ st ∈ T2 → GoodState O env cs st) :
    ∀ fuel, IH O env p cs T1 T2 fuel
  | 0 => by
    intro up i c s hi hinv hna r c' h
    exact absurd rfl (hna "out of fuel")
  | fuel + 1 => by
    have ih : IH O env p cs T1 T2 fuel := exec_sim hgood fuel
    intro up i c s hi hinv hna r c' h
    cases i with
    | call peer svc func args out =>
      simp only [exec] at h
      exact execCall_sim hgood fuel up peer svc func args out _ c s hi hinv hna r c' h
    | seq l rr =>
      simp only [exec] at h
      simp only [FragA, Bool.and_eq_true] at hi
      exact onError_sim _ _ c _ (fun r c' h => seq_sim ih up l rr c s hi.1 hi.2 hinv hna r c' h) r c' h
    | xor l rr =>
      simp only [exec] at h
      simp only [FragA, Bool.and_eq_true] at hi
      exact onError_sim _ _ c _ (fun r c' h => xor_sim ih up l rr c s hi.1 hi.2 hinv hna r c' h) r c' h
    | par l rr =>
      simp only [exec] at h
      simp only [FragA, Bool.and_eq_true] at hi
      exact onError_sim _ _ c _ (fun r c' h => par_sim ih up l rr c s hi.1 hi.2 hinv hna r c' h) r c' h
    | match_ a b body =>
      simp only [exec] at h
      simp only [FragA, Bool.and_eq_true] at hi
      exact onError_sim _ _ c _ (fun r c' h => match_sim ih up a b body true c s hi.1.1 hi.1.2 hi.2 hinv _ (Or.inl ⟨rfl, rfl⟩) hna r c' h) r c' h
    | mismatch a b body =>
      simp only [exec] at h
      simp only [FragA, Bool.and_eq_true] at hi
      exact onError_sim _ _ c _ (fun r c' h => match_sim ih up a b body false c s hi.1.1 hi.1.2 hi.2 hinv _ (Or.inr ⟨rfl, rfl⟩) hna r c' h) r c' h
    | ap arg out =>
      simp only [exec] at h
      cases out with
      | scalar name =>
        simp only [FragA, Bool.and_eq_true] at hi
        exact onError_sim _ _ c _ (fun r c' h => ap_sim (fuel := fuel) (env := env) up arg name c s hi.1 hinv hna r c' h) r c' h
      | none => simp [FragA] at hi
      | stream n pos => simp [FragA] at hi
    | fail arg =>
      simp only [exec] at h
      refine onError_sim _ _ c _ (fun r c' h => ?_) r c' h
      simp only [execInner] at h
      obtain ⟨hsame, hnok⟩ := execFail_run arg c r c' h
      have he : eval O p (fuel + 1) up (.fail arg) s = (.failed, s) := by
        cases arg <;> first | rfl | (simp [FragA] at hi)
      rw [he]
      exact ⟨hinv.congr hsame, (fun h => absurd h hnok), fun ce _ => rfl⟩
    | null =>
      simp only [exec] at h
      refine onError_sim _ _ c _ (fun r c' h => ?_) r c' h
      simp only [execInner, pure, M.pure] at h
      injection h with h1 h2; subst h1; subst h2
      exact ⟨hinv, fun _ _ => rfl, (fun ce h => nomatch h)⟩
    | never =>
      simp only [exec] at h
      refine onError_sim _ _ c _ (fun r c' h => ?_) r c' h
      simp only [execInner, makeSubgraphIncomplete, modifyCtx] at h
      injection h with h1 h2; subst h1; subst h2
      exact ⟨hinv.congr (sameCore_flag c false), (fun _ hc => nomatch hc), (fun ce h => nomatch h)⟩
    | apMap _ _ _ _ => simp [FragA] at hi
    | canon _ _ _ _ => simp [FragA] at hi
    | canonMap _ _ _ _ => simp [FragA] at hi
    | canonMapScalar _ _ _ _ => simp [FragA] at hi
    | foldScalar _ _ _ _ => simp [FragA] at hi
    | foldStream _ _ _ _ _ _ => simp [FragA] at hi
    | foldMap _ _ _ _ _ _ => simp [FragA] at hi
    | next _ => simp [FragA] at hi
    | new _ _ _ _ => simp [FragA] at hi

/-! ### when the reference evaluator does not abort: enough fuel, every scalar bound once -/

/-- the scalars an instruction binds -/
def binders : Instr → List String
  | .call _ _ _ _ out => (match out with | .scalar n => [n] | _ => [])
  | .ap _ out => (match out with | .scalar n => [n] | _ => [])
  | .seq l r | .par l r | .xor l r => binders l ++ binders r
  | .match_ _ _ i | .mismatch _ _ i => binders i
  | _ => []

/-- nesting depth = fuel needed -/
def depth : Instr → Nat
  | .seq l r | .par l r | .xor l r => 1 + max (depth l) (depth r)
  | .match_ _ _ i | .mismatch _ _ i => 1 + depth i
  | _ => 1

theorem na_done : NoAbort Outcome.done := fun w h => nomatch h
theorem na_blocked : NoAbort Outcome.blocked := fun w h => nomatch h
theorem na_failed : NoAbort Outcome.failed := fun w h => nomatch h
macro "na" : tactic => `(tactic| first | exact na_done | exact na_blocked | exact na_failed)

theorem canBind_bind_other {s : State} (h : FlatS s) (n m : String) (v : JVal) (hne : m ≠ n) (hm : s.canBind m = true) :
    (s.bind n v).canBind m = true := by
  obtain ⟨g, hg, hh⟩ := h.frames
  unfold State.canBind at hm ⊢
  have hl : (s.bind n v).loops = s.loops := by unfold State.bind; rw [hg]
  have hf : (s.bind n v).frames = [{ g with vars := setVar g.vars n (some v) }] := by unfold State.bind; rw [hg]
  rw [hl, hf]
  rw [hg] at hm
  simp only [findVar_setVar_other _ _ _ _ hne]
  exact hm

theorem canBind_pushCall (s : State) (c : Call) (m : String) : (pushCall s c).canBind m = s.canBind m := rfl

theorem eval_noAbort (O : Oracle) (p : Params) : ∀ (fuel : Nat) (up : Bool) (i : Instr) (s : State) (rest : List String),
    FragA i = true → FlatS s → depth i ≤ fuel → (binders i ++ rest).Nodup →
    (∀ n ∈ binders i ++ rest, s.canBind n = true) →
    NoAbort (eval O p fuel up i s).1 ∧ ∀ n ∈ rest, (eval O p fuel up i s).2.canBind n = true
  | 0, _, i, _, _, _, _, hd, _, _ => by cases i <;> simp [depth] at hd
  | fuel + 1, up, i, s, rest, hi, hs, hd, hnd, hcb => by
    have ih := eval_noAbort O p fuel
    have hrest : ∀ n ∈ rest, s.canBind n = true := fun n hn => hcb n (List.mem_append_right _ hn)
    cases i with
    | null => simp only [eval]; exact ⟨by na, hrest⟩
    | never => simp only [eval]; exact ⟨by na, hrest⟩
    | fail arg =>
      simp only [eval]
      cases arg <;> first | exact ⟨by na, hrest⟩ | (simp [FragA] at hi)
    | seq l r =>
      simp only [FragA, Bool.and_eq_true] at hi
      simp only [depth] at hd
      simp only [binders, List.append_assoc] at hnd hcb
      simp only [eval]
      have h1 := ih false l s (binders r ++ rest) hi.1 hs (by omega) hnd hcb
      obtain ⟨hf1, _⟩ := eval_ext O p fuel false l s hi.1 hs
      generalize eval O p fuel false l s = e1 at h1 hf1 ⊢
      obtain ⟨o1, s1⟩ := e1
      cases o1 with
      | done =>
        simp only
        exact ih false r s1 rest hi.2 hf1 (by omega) (List.nodup_append.mp hnd).2.1 h1.2
      | blocked => exact ⟨by na, fun n hn => h1.2 n (List.mem_append_right _ hn)⟩
      | failed => exact ⟨by na, fun n hn => h1.2 n (List.mem_append_right _ hn)⟩
      | abort w => exact absurd rfl (h1.1 w)
    | xor l r =>
      simp only [FragA, Bool.and_eq_true] at hi
      simp only [depth] at hd
      simp only [binders, List.append_assoc] at hnd hcb
      simp only [eval]
      have h1 := ih false l s (binders r ++ rest) hi.1 hs (by omega) hnd hcb
      obtain ⟨hf1, _⟩ := eval_ext O p fuel false l s hi.1 hs
      generalize eval O p fuel false l s = e1 at h1 hf1 ⊢
      obtain ⟨o1, s1⟩ := e1
      cases o1 with
      | failed =>
        simp only
        exact ih false r s1 rest hi.2 hf1 (by omega) (List.nodup_append.mp hnd).2.1 h1.2
      | blocked => exact ⟨by na, fun n hn => h1.2 n (List.mem_append_right _ hn)⟩
      | done => exact ⟨by na, fun n hn => h1.2 n (List.mem_append_right _ hn)⟩
      | abort w => exact absurd rfl (h1.1 w)
    | par l r =>
      simp only [FragA, Bool.and_eq_true] at hi
      simp only [depth] at hd
      simp only [binders, List.append_assoc] at hnd hcb
      simp only [eval]
      have h1 := ih true l s (binders r ++ rest) hi.1 hs (by omega) hnd hcb
      obtain ⟨hf1, _⟩ := eval_ext O p fuel true l s hi.1 hs
      generalize eval O p fuel true l s = e1 at h1 hf1 ⊢
      obtain ⟨o1, s1⟩ := e1
      have h2 := ih true r s1 rest hi.2 hf1 (by omega) (List.nodup_append.mp hnd).2.1 h1.2
      cases o1 with
      | abort w => exact absurd rfl (h1.1 w)
      | done =>
        simp only
        generalize eval O p fuel true r s1 = e2 at h2 ⊢
        obtain ⟨o2, s2⟩ := e2
        cases o2 with
        | abort w => exact absurd rfl (h2.1 w)
        | done => exact ⟨by na, h2.2⟩
        | blocked => exact ⟨by na, h2.2⟩
        | failed => exact ⟨by na, h2.2⟩
      | blocked =>
        simp only
        generalize eval O p fuel true r s1 = e2 at h2 ⊢
        obtain ⟨o2, s2⟩ := e2
        cases o2 with
        | abort w => exact absurd rfl (h2.1 w)
        | done => exact ⟨by na, h2.2⟩
        | blocked => exact ⟨by na, h2.2⟩
        | failed => exact ⟨by na, h2.2⟩
      | failed =>
        simp only
        generalize eval O p fuel true r s1 = e2 at h2 ⊢
        obtain ⟨o2, s2⟩ := e2
        cases o2 with
        | abort w => exact absurd rfl (h2.1 w)
        | done => exact ⟨by na, h2.2⟩
        | blocked => exact ⟨by na, h2.2⟩
        | failed => exact ⟨by na, h2.2⟩
    | match_ a b body =>
      simp only [FragA, Bool.and_eq_true] at hi
      simp only [depth] at hd
      simp only [binders] at hnd hcb
      have hb := ih false body s rest hi.2 hs (by omega) hnd hcb
      have hva : ∃ ga, operand p s a = some ga := by cases a <;> simp [FragV] at hi <;> exact ⟨_, rfl⟩
      have hvb : ∃ gb, operand p s b = some gb := by cases b <;> simp [FragV] at hi <;> exact ⟨_, rfl⟩
      obtain ⟨ga, hga⟩ := hva
      obtain ⟨gb, hgb⟩ := hvb
      rw [(eval_match_eq O p fuel up a b body s ga gb hga hgb).1]
      cases (ga.bind fun x => gb.bind fun y => Got.val (x == y)) with
      | undefined => exact ⟨by na, hrest⟩
      | error => exact ⟨by na, hrest⟩
      | val v => cases v with
        | true => exact hb
        | false => exact ⟨by na, hrest⟩
    | mismatch a b body =>
      simp only [FragA, Bool.and_eq_true] at hi
      simp only [depth] at hd
      simp only [binders] at hnd hcb
      have hb := ih false body s rest hi.2 hs (by omega) hnd hcb
      have hva : ∃ ga, operand p s a = some ga := by cases a <;> simp [FragV] at hi <;> exact ⟨_, rfl⟩
      have hvb : ∃ gb, operand p s b = some gb := by cases b <;> simp [FragV] at hi <;> exact ⟨_, rfl⟩
      obtain ⟨ga, hga⟩ := hva
      obtain ⟨gb, hgb⟩ := hvb
      rw [(eval_match_eq O p fuel up a b body s ga gb hga hgb).2]
      cases (ga.bind fun x => gb.bind fun y => Got.val (x == y)) with
      | undefined => exact ⟨by na, hrest⟩
      | error => exact ⟨by na, hrest⟩
      | val v => cases v with
        | false => exact hb
        | true => exact ⟨by na, hrest⟩
    | ap arg out =>
      cases out with
      | scalar name =>
        simp only [FragA, Bool.and_eq_true] at hi
        simp only [binders, List.singleton_append] at hnd hcb
        have hva : ∃ g, operand p s arg = some g := by cases arg <;> simp [FragV] at hi <;> exact ⟨_, rfl⟩
        obtain ⟨g, hg⟩ := hva
        simp only [eval, hg]
        have hcn : s.canBind name = true := hcb name (List.mem_cons_self)
        cases g with
        | undefined => exact ⟨by na, hrest⟩
        | error => exact ⟨by na, hrest⟩
        | val v =>
          simp only [hcn, if_true]
          refine ⟨by na, fun n hn => ?_⟩
          have hne : n ≠ name := by
            intro e; subst e
            exact (List.nodup_cons.mp hnd).1 hn
          exact canBind_bind_other hs name n v hne (hrest n hn)
      | none => simp [FragA] at hi
      | stream _ _ => simp [FragA] at hi
    | call peer svc func args out =>
      simp only [FragA, Bool.and_eq_true] at hi
      obtain ⟨⟨⟨⟨hfp, hfs⟩, hff⟩, hargs⟩, hout⟩ := hi
      have hvp : ∃ g, operand p s peer = some g := by cases peer <;> simp [FragT] at hfp <;> exact ⟨_, rfl⟩
      have hvs : ∃ g, operand p s svc = some g := by cases svc <;> simp [FragT] at hfs <;> exact ⟨_, rfl⟩
      have hvf : ∃ g, operand p s func = some g := by cases func <;> simp [FragT] at hff <;> exact ⟨_, rfl⟩
      have hva : ∃ ga, operands p s args = some ga := by
        clear hnd hcb hd
        induction args with
        | nil => exact ⟨_, rfl⟩
        | cons a rest' iha =>
          simp only [List.all_cons, Bool.and_eq_true] at hargs
          obtain ⟨gr, hgr⟩ := iha hargs.2
          have hv : ∃ g, operand p s a = some g := by
            have := hargs.1; cases a <;> simp [FragV] at this <;> exact ⟨_, rfl⟩
          obtain ⟨g, hg⟩ := hv
          simp only [operands, hg, hgr]
          cases g <;> exact ⟨_, rfl⟩
      obtain ⟨gp, hgp⟩ := hvp
      obtain ⟨gs, hgs⟩ := hvs
      obtain ⟨gf, hgf⟩ := hvf
      obtain ⟨ga, hga⟩ := hva
      cases out with
      | stream _ _ => simp at hout
      | none =>
        simp only [eval, hgp, hgs, hgf, hga]
        cases asString gp <;> simp only <;> try exact ⟨by na, hrest⟩
        cases asString gs <;> simp only <;> try exact ⟨by na, hrest⟩
        cases asString gf <;> simp only <;> try exact ⟨by na, hrest⟩
        simp only [Bool.not_true, Bool.false_eq_true, if_false]
        cases ga <;> simp only <;> try exact ⟨by na, hrest⟩
        split <;> exact ⟨by na, hrest⟩
      | scalar name =>
        simp only [binders, List.singleton_append] at hnd hcb
        have hcn : s.canBind name = true := hcb name (List.mem_cons_self)
        simp only [eval, hgp, hgs, hgf, hga]
        cases asString gp <;> simp only <;> try exact ⟨by na, hrest⟩
        cases asString gs <;> simp only <;> try exact ⟨by na, hrest⟩
        cases asString gf <;> simp only <;> try exact ⟨by na, hrest⟩
        simp only [hcn, Bool.not_true, Bool.false_eq_true, if_false]
        cases ga <;> simp only <;> try exact ⟨by na, hrest⟩
        split
        · exact ⟨by na, hrest⟩
        · refine ⟨by na, fun n hn => ?_⟩
          have hne : n ≠ name := by
            intro e; subst e
            exact (List.nodup_cons.mp hnd).1 hn
          exact canBind_bind_other (flat_pushCall hs _) name n _ hne (hrest n hn)
    | _ => simp [FragA] at hi

end AquaProps.C16
