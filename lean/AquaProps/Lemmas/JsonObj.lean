import Aqua.Json.Value
/-!
# Objects are canonical: `JVal.mkObj` depends only on the final key→value map

`insertSorted` is `BTreeMap::insert`, `mkObj` the map built by inserting pairs in the given order.
The resulting association list is strictly sorted by key, its lookup function is "the last pair with
that key wins", and a strictly sorted list is determined by its lookup function.
-/
namespace AquaProps.JsonObj
open Aqua.Json

abbrev Pairs := List (String × JVal)

/-- strictly increasing keys (the in-order traversal of a `BTreeMap`) -/
def Sorted (l : Pairs) : Prop := l.Pairwise fun a b => a.1 < b.1

/-- the key→value map an insertion sequence ends up with: the last pair with the key wins -/
def finalMap (l : Pairs) (k : String) : Option JVal := l.reverse.lookup k

theorem strLt_iff (a b : String) : strLt a b = true ↔ a < b := by simp [strLt]

theorem lookup_cons' (k k₁ : String) (v₁ : JVal) (rest : Pairs) :
    List.lookup k ((k₁, v₁) :: rest) = if k = k₁ then some v₁ else rest.lookup k := by
  rw [List.lookup_cons]
  by_cases h : k = k₁
  · subst h; simp
  · have : (k == k₁) = false := by simpa using h
    simp [this, h]

theorem lookup_insertSorted (k : String) (v : JVal) (l : Pairs) (k' : String) :
    (insertSorted k v l).lookup k' = if k' = k then some v else l.lookup k' := by
  induction l with
  | nil => simp [insertSorted, lookup_cons']
  | cons p rest ih =>
    obtain ⟨k₁, v₁⟩ := p
    unfold insertSorted
    by_cases h1 : k = k₁
    · subst h1
      simp only [beq_self_eq_true, if_true]
      rw [lookup_cons', lookup_cons']
      by_cases h : k' = k <;> simp [h]
    · have h1' : (k == k₁) = false := by simpa using h1
      simp only [h1', Bool.false_eq_true, if_false]
      by_cases h2 : strLt k k₁ = true
      · simp only [h2, if_true]
        rw [lookup_cons']
      · simp only [h2, Bool.false_eq_true, if_false]
        rw [lookup_cons', lookup_cons', ih]
        by_cases h : k' = k
        · subst h
          simp [h1]
        · simp [h]

theorem mem_insertSorted {k : String} {v : JVal} {l : Pairs} {p : String × JVal}
    (h : p ∈ insertSorted k v l) : p = (k, v) ∨ p ∈ l := by
  induction l with
  | nil => simpa [insertSorted] using h
  | cons q rest ih =>
    obtain ⟨k₁, v₁⟩ := q
    unfold insertSorted at h
    split at h
    · rcases List.mem_cons.mp h with h | h
      · exact .inl h
      · exact .inr (List.mem_cons_of_mem _ h)
    · split at h
      · rcases List.mem_cons.mp h with h | h
        · exact .inl h
        · exact .inr h
      · rcases List.mem_cons.mp h with h | h
        · exact .inr (h ▸ List.mem_cons_self)
        · rcases ih h with h | h
          · exact .inl h
          · exact .inr (List.mem_cons_of_mem _ h)

theorem insertSorted_sorted (k : String) (v : JVal) (l : Pairs) (hs : Sorted l) :
    Sorted (insertSorted k v l) := by
  induction l with
  | nil => simp [insertSorted, Sorted]
  | cons q rest ih =>
    obtain ⟨k₁, v₁⟩ := q
    have hs' := List.pairwise_cons.mp hs
    unfold insertSorted
    by_cases h1 : k = k₁
    · subst h1
      simp only [beq_self_eq_true, if_true]
      exact List.pairwise_cons.mpr ⟨hs'.1, hs'.2⟩
    · have h1' : (k == k₁) = false := by simpa using h1
      simp only [h1', Bool.false_eq_true, if_false]
      by_cases h2 : strLt k k₁ = true
      · simp only [h2, if_true]
        have hlt : k < k₁ := (strLt_iff _ _).mp h2
        refine List.pairwise_cons.mpr ⟨?_, hs⟩
        intro p hp
        rcases List.mem_cons.mp hp with hp | hp
        · subst hp; exact hlt
        · exact String.lt_trans hlt (hs'.1 p hp)
      · simp only [h2, Bool.false_eq_true, if_false]
        have hnlt : ¬ k < k₁ := fun h => h2 ((strLt_iff _ _).mpr h)
        have hgt : k₁ < k := by
          rcases Std.lt_trichotomy k k₁ with h | h | h
          · exact absurd h hnlt
          · exact absurd h h1
          · exact h
        refine List.pairwise_cons.mpr ⟨?_, ih hs'.2⟩
        intro p hp
        rcases mem_insertSorted hp with hp | hp
        · subst hp; exact hgt
        · exact hs'.1 p hp

theorem lookup_none_of_lt {k : String} {l : Pairs} (h : ∀ p ∈ l, k < p.1) : l.lookup k = none := by
  induction l with
  | nil => rfl
  | cons q rest ih =>
    obtain ⟨k₁, v₁⟩ := q
    have hne : ¬ k = k₁ := by
      have := h (k₁, v₁) List.mem_cons_self
      intro e; subst e; exact String.lt_irrefl _ this
    rw [lookup_cons', if_neg hne]
    exact ih fun p hp => h p (List.mem_cons_of_mem _ hp)

/-- a strictly sorted association list is determined by its lookup function -/
theorem sorted_ext {l₁ l₂ : Pairs} (h₁ : Sorted l₁) (h₂ : Sorted l₂)
    (h : ∀ k, l₁.lookup k = l₂.lookup k) : l₁ = l₂ := by
  induction l₁ generalizing l₂ with
  | nil =>
    cases l₂ with
    | nil => rfl
    | cons q _ =>
      obtain ⟨k₂, v₂⟩ := q
      have := h k₂
      rw [lookup_cons'] at this
      simp at this
  | cons p t₁ ih =>
    obtain ⟨k₁, v₁⟩ := p
    cases l₂ with
    | nil =>
      have := h k₁
      rw [lookup_cons'] at this
      simp at this
    | cons q t₂ =>
      obtain ⟨k₂, v₂⟩ := q
      have hs₁ := List.pairwise_cons.mp h₁
      have hs₂ := List.pairwise_cons.mp h₂
      have hk : k₁ = k₂ := by
        rcases Std.lt_trichotomy k₁ k₂ with hlt | heq | hgt
        · have := h k₁
          have hne : ¬ k₁ = k₂ := by intro e; subst e; exact String.lt_irrefl _ hlt
          rw [lookup_cons', lookup_cons', if_neg hne, if_pos rfl,
            lookup_none_of_lt (fun p hp => String.lt_trans hlt (hs₂.1 p hp))] at this
          cases this
        · exact heq
        · have := h k₂
          have hne : ¬ k₂ = k₁ := by intro e; subst e; exact String.lt_irrefl _ hgt
          rw [lookup_cons', lookup_cons', if_neg hne, if_pos rfl,
            lookup_none_of_lt (fun p hp => String.lt_trans hgt (hs₁.1 p hp))] at this
          cases this
      subst hk
      have hv : v₁ = v₂ := by
        have := h k₁
        rw [lookup_cons', lookup_cons', if_pos rfl, if_pos rfl] at this
        exact Option.some.inj this
      subst hv
      have ht : t₁ = t₂ := by
        apply ih hs₁.2 hs₂.2
        intro k
        by_cases hk : k = k₁
        · subst hk
          rw [lookup_none_of_lt hs₁.1, lookup_none_of_lt hs₂.1]
        · have := h k
          rw [lookup_cons', lookup_cons', if_neg hk, if_neg hk] at this
          exact this
      rw [ht]

/-- inserting a sequence of pairs: sortedness is kept and lookup is "last pair wins, else the old map" -/
theorem foldl_insert (l : Pairs) (init : Pairs) (hs : Sorted init) :
    Sorted (l.foldl (fun acc (p : String × JVal) => insertSorted p.1 p.2 acc) init) ∧
    ∀ k, (l.foldl (fun acc (p : String × JVal) => insertSorted p.1 p.2 acc) init).lookup k =
      (match l.reverse.lookup k with
       | some v => some v
       | none => init.lookup k) := by
  induction l generalizing init with
  | nil => exact ⟨hs, fun k => by simp⟩
  | cons p rest ih =>
    obtain ⟨k₁, v₁⟩ := p
    have := ih (insertSorted k₁ v₁ init) (insertSorted_sorted _ _ _ hs)
    refine ⟨this.1, fun k => ?_⟩
    rw [List.foldl_cons, this.2 k, lookup_insertSorted]
    rw [List.reverse_cons]
    -- lookup in `rest.reverse ++ [(k₁, v₁)]`
    have happ : ∀ (a : Pairs), (a ++ [(k₁, v₁)]).lookup k =
        (match a.lookup k with
         | some v => some v
         | none => if k = k₁ then some v₁ else none) := by
      intro a
      induction a with
      | nil => rw [List.nil_append, lookup_cons']; rfl
      | cons q a iha =>
        obtain ⟨k₂, v₂⟩ := q
        rw [List.cons_append, lookup_cons', lookup_cons']
        by_cases hq : k = k₂
        · simp [hq]
        · simp only [hq, if_false]; exact iha
    rw [happ]
    cases rest.reverse.lookup k with
    | some v => rfl
    | none => by_cases h : k = k₁ <;> simp [h]

theorem mkObj_eq (l : Pairs) :
    JVal.mkObj l = .obj (l.foldl (fun acc (p : String × JVal) => insertSorted p.1 p.2 acc) []) := rfl

theorem mkObj_sorted_lookup (l : Pairs) :
    ∃ kvs, JVal.mkObj l = .obj kvs ∧ Sorted kvs ∧ ∀ k, kvs.lookup k = finalMap l k := by
  refine ⟨_, mkObj_eq l, (foldl_insert l [] (by simp [Sorted])).1, fun k => ?_⟩
  rw [(foldl_insert l [] (by simp [Sorted])).2 k, finalMap]
  cases l.reverse.lookup k <;> rfl

/-- **Canonical objects.**  Two insertion sequences give the same object iff they end up with the same
key→value map. -/
theorem mkObj_eq_iff (l₁ l₂ : Pairs) :
    JVal.mkObj l₁ = JVal.mkObj l₂ ↔ ∀ k, finalMap l₁ k = finalMap l₂ k := by
  obtain ⟨a, ha, hsa, hla⟩ := mkObj_sorted_lookup l₁
  obtain ⟨b, hb, hsb, hlb⟩ := mkObj_sorted_lookup l₂
  rw [ha, hb]
  constructor
  · intro h k
    injection h with h
    rw [← hla, ← hlb, h]
  · intro h
    have : a = b := sorted_ext hsa hsb fun k => by rw [hla, hlb, h]
    rw [this]

/-! ### Permutations of pairs with distinct keys -/

theorem lookup_eq_some_iff_mem {l : Pairs} (hn : (l.map Prod.fst).Nodup) (k : String) (v : JVal) :
    l.lookup k = some v ↔ (k, v) ∈ l := by
  induction l with
  | nil => simp
  | cons q rest ih =>
    obtain ⟨k₁, v₁⟩ := q
    simp only [List.map_cons, List.nodup_cons] at hn
    rw [lookup_cons']
    by_cases h : k = k₁
    · subst h
      simp only [if_true, List.mem_cons, Prod.mk.injEq, true_and, Option.some.injEq]
      constructor
      · intro e; exact .inl e.symm
      · rintro (e | e)
        · exact e.symm
        · exact absurd (List.mem_map.mpr ⟨(k, v), e, rfl⟩) hn.1
    · simp only [h, if_false, List.mem_cons, Prod.mk.injEq, false_and, false_or]
      exact ih hn.2

theorem nodup_reverse {l : List String} (h : l.Nodup) : l.reverse.Nodup := by
  unfold List.Nodup at *
  rw [List.pairwise_reverse]
  exact h.imp fun h => h.symm

theorem finalMap_perm {l₁ l₂ : Pairs} (hp : l₁.Perm l₂) (hn : (l₁.map Prod.fst).Nodup) (k : String) :
    finalMap l₁ k = finalMap l₂ k := by
  have hn₂ : (l₂.map Prod.fst).Nodup := (hp.map Prod.fst).nodup_iff.mp hn
  have hr₁ : (l₁.reverse.map Prod.fst).Nodup := by rw [List.map_reverse]; exact nodup_reverse hn
  have hr₂ : (l₂.reverse.map Prod.fst).Nodup := by rw [List.map_reverse]; exact nodup_reverse hn₂
  unfold finalMap
  have key : ∀ v, l₁.reverse.lookup k = some v ↔ l₂.reverse.lookup k = some v := by
    intro v
    rw [lookup_eq_some_iff_mem hr₁, lookup_eq_some_iff_mem hr₂, List.mem_reverse, List.mem_reverse]
    exact hp.mem_iff
  cases h₁ : l₁.reverse.lookup k with
  | some v => exact ((key v).mp h₁).symm
  | none =>
    cases h₂ : l₂.reverse.lookup k with
    | none => rfl
    | some v => rw [(key v).mpr h₂] at h₁; cases h₁

end AquaProps.JsonObj
