import AquaProps.Lemmas.TraceFoldOps
import AquaProps.Lemmas.TraceForest
/-!
# The par invariant of the trace-handler model (C10)

`StateInserter` invariant: a reserved position is rewritten only by the FSM that reserved it.  For the forest
reading only the `(left, right)` sizes matter (`parSizes`): every operation other than the closing
`meetParSubgraphEnd right` either leaves the list of sizes alone or appends a leaf.
-/
set_option linter.unusedSimpArgs false

namespace Aqua.Trace
open Aqua Aqua.Data

/-- the `(left, right)` sizes of the result trace -/
def TraceHandler.sizes (h : TraceHandler) : List (Nat × Nat) := h.tr.map parSizes

def HOp.isPar : HOp → Bool
  | .parStart => true
  | .parEnd _ => true
  | _ => false

/-- reserved positions: those of open pars are inside the trace; those of open folds hold a leaf and are not the
position of an open par -/
structure ParInv (h : TraceHandler) : Prop where
  parLt : ∀ g ∈ h.parStack, g.inserterPos < h.tr.length
  foldUnit : ∀ id f, h.fsm id = some f →
    h.sizes[f.inserterPos]? = some (0, 0) ∧ ∀ g ∈ h.parStack, g.inserterPos ≠ f.inserterPos

/-- what an operation other than `parStart`/`parEnd` does to the shape -/
structure ShapeEff (h h' : TraceHandler) : Prop where
  stack : h'.parStack = h.parStack
  sizes : h'.sizes = h.sizes ∨ h'.sizes = h.sizes ++ [(0, 0)]
  fsms : ∀ id f', h'.fsm id = some f' →
    (∃ f, h.fsm id = some f ∧ f'.inserterPos = f.inserterPos) ∨
    (f'.inserterPos = h.tr.length ∧ h'.sizes = h.sizes ++ [(0, 0)])

theorem sizes_length (h : TraceHandler) : h.sizes.length = h.tr.length := by simp [TraceHandler.sizes]

theorem List.set_eq_self_of_getElem? {α : Type} (l : List α) (i : Nat) (x : α) (h : l[i]? = some x) :
    l.set i x = l := by
  apply List.ext_getElem?
  intro j
  by_cases hij : i = j
  · subst hij
    rw [List.getElem?_set_self (by rcases List.getElem?_eq_some_iff.mp h with ⟨h, _⟩; exact h), h]
  · rw [List.getElem?_set_ne hij]

theorem sizes_setAt_leaf (t : Trace) (p : Nat) (s : ExecutedState) (hs : parSizes s = (0, 0))
    (hp : (t.map parSizes)[p]? = some (0, 0)) : (setAt t p s).map parSizes = t.map parSizes := by
  unfold setAt
  rw [List.map_set, hs]
  exact List.set_eq_self_of_getElem? _ _ _ hp

theorem ParInv.of_shapeEff {h h' : TraceHandler} (g : ParInv h) (e : ShapeEff h h') : ParInv h' := by
  have hlen : h.tr.length ≤ h'.tr.length := by
    rw [← sizes_length, ← sizes_length]
    rcases e.sizes with hs | hs <;> rw [hs] <;> simp
  constructor
  · intro p hp
    rw [e.stack] at hp
    exact Nat.lt_of_lt_of_le (g.parLt p hp) hlen
  · intro id f' hf'
    rcases e.fsms id f' hf' with ⟨f, hf, hip⟩ | ⟨hip, hs⟩
    · obtain ⟨hu, hne⟩ := g.foldUnit id f hf
      rw [hip, e.stack]
      refine ⟨?_, hne⟩
      rcases e.sizes with hs | hs <;> rw [hs]
      · exact hu
      · rw [List.getElem?_append_left (by rcases List.getElem?_eq_some_iff.mp hu with ⟨h, _⟩; exact h)]; exact hu
    · rw [hip, hs, e.stack]
      refine ⟨?_, ?_⟩
      · rw [← sizes_length]; simp
      · intro p hp; exact Nat.ne_of_lt (g.parLt p hp)

/-- every operation except `parStart` / `parEnd` keeps the sizes or appends a leaf -/
theorem shapeEff_of_simple {h h' : TraceHandler} (op : HOp) (hop : op.isPar = false) (g : ParInv h)
    (e : op.apply h = some h') : ShapeEff h h' := by
  have same : ∀ {h' : TraceHandler}, h'.tr = h.tr → h'.parStack = h.parStack → (∀ id, h'.fsm id = h.fsm id) →
      ShapeEff h h' := by
    intro h' ht hs hf
    exact ⟨hs, .inl (by simp [TraceHandler.sizes, ht]), fun id f' hf' => .inl ⟨f', by rw [← hf id]; exact hf', rfl⟩⟩
  have push : ∀ (s : ExecutedState), parSizes s = (0, 0) → ShapeEff h (h.pushState s) := by
    intro s hs
    refine ⟨rfl, .inr ?_, fun id f' hf' => .inl ⟨f', hf', rfl⟩⟩
    show List.map parSizes (h.keeper.resultTrace ++ [s]) = List.map parSizes h.keeper.resultTrace ++ [(0, 0)]
    simp [hs]
  cases op with
  | parStart => simp [HOp.isPar] at hop
  | parEnd t => simp [HOp.isPar] at hop
  | callStart =>
    simp only [HOp.apply, Option.map_eq_some_iff, resOk_eq_some] at e
    obtain ⟨⟨r, h1⟩, e, rfl⟩ := e
    obtain ⟨ht, hs, hf⟩ := meetCallStart_eff e
    exact same ht hs (fun id => by simp [TraceHandler.fsm, hf])
  | apStart =>
    simp only [HOp.apply, Option.map_eq_some_iff, resOk_eq_some] at e
    obtain ⟨⟨r, h1⟩, e, rfl⟩ := e
    obtain ⟨ht, hs, hf⟩ := meetApStart_eff e
    exact same ht hs (fun id => by simp [TraceHandler.fsm, hf])
  | canonStart =>
    simp only [HOp.apply, Option.map_eq_some_iff, resOk_eq_some] at e
    obtain ⟨⟨r, h1⟩, e, rfl⟩ := e
    obtain ⟨ht, hs, hf⟩ := meetCanonStart_eff e
    exact same ht hs (fun id => by simp [TraceHandler.fsm, hf])
  | callEnd c => simp only [HOp.apply, Option.some.injEq] at e; subst e; exact push _ rfl
  | apEnd gs => simp only [HOp.apply, Option.some.injEq] at e; subst e; exact push _ rfl
  | canonEnd c => simp only [HOp.apply, Option.some.injEq] at e; subst e; exact push _ rfl
  | foldStart id =>
    simp only [HOp.apply, resOk_eq_some] at e
    obtain ⟨f, ht, hs, hf, hip, _⟩ := meetFoldStart_eff e
    have hsz : h'.sizes = h.sizes ++ [(0, 0)] := by simp [TraceHandler.sizes, ht, parSizes]
    refine ⟨hs, .inr hsz, ?_⟩
    intro id' f' hf'
    rw [hf id'] at hf'
    by_cases h2 : id' = id
    · simp only [h2, if_true, Option.some.injEq] at hf'
      subst hf'
      exact .inr ⟨hip, hsz⟩
    · simp only [h2, if_false] at hf'
      exact .inl ⟨f', hf', rfl⟩
  | iterStart id vp =>
    simp only [HOp.apply, resOk_eq_some] at e
    obtain ⟨f, f', hf, hk, hs, hfs⟩ := meetIterationStart_eff e
    obtain ⟨ht, hip, _⟩ := FoldFSM.meetIterationStart_eff hk
    refine ⟨hs, .inl (by simp [TraceHandler.sizes, TraceHandler.tr, ht]), ?_⟩
    intro id' f2 hf2
    rw [hfs id'] at hf2
    by_cases h2 : id' = id
    · simp only [h2, if_true, Option.some.injEq] at hf2
      subst hf2; subst h2
      exact .inl ⟨f, hf, hip⟩
    · simp only [h2, if_false] at hf2
      exact .inl ⟨f2, hf2, rfl⟩
  | iterEnd id =>
    simp only [HOp.apply, resOk_eq_some] at e
    obtain ⟨f, f', hf, hk, hkeep, hs, hfs⟩ := meetIterationEnd_eff e
    obtain ⟨_, _, _, _, _, hip, _⟩ := FoldFSM.meetIterationEnd_eff hk
    refine ⟨hs, .inl (by simp [TraceHandler.sizes, TraceHandler.tr, hkeep]), ?_⟩
    intro id' f2 hf2
    rw [hfs id'] at hf2
    by_cases h2 : id' = id
    · simp only [h2, if_true, Option.some.injEq] at hf2
      subst hf2; subst h2
      exact .inl ⟨f, hf, hip⟩
    · simp only [h2, if_false] at hf2
      exact .inl ⟨f2, hf2, rfl⟩
  | backIter id =>
    simp only [HOp.apply, resOk_eq_some] at e
    obtain ⟨f, f', hf, hk, hs, hfs⟩ := meetBackIterator_eff e
    have hboth : h'.keeper.resultTrace = h.keeper.resultTrace ∧ f'.inserterPos = f.inserterPos := by
      cases hst : f.backTraversalStarted with
      | false =>
        obtain ⟨_, _, _, _, _, ht, hip, _⟩ := FoldFSM.meetBackIterator_first_eff hst hk
        exact ⟨ht, hip⟩
      | true =>
        obtain ⟨_, _, _, _, _, _, _, ht, hip, _⟩ := FoldFSM.meetBackIterator_next_eff hst hk
        exact ⟨ht, hip⟩
    refine ⟨hs, .inl (by simp [TraceHandler.sizes, TraceHandler.tr, hboth.1]), ?_⟩
    intro id' f2 hf2
    rw [hfs id'] at hf2
    by_cases h2 : id' = id
    · simp only [h2, if_true, Option.some.injEq] at hf2
      subst hf2; subst h2
      exact .inl ⟨f, hf, hboth.2⟩
    · simp only [h2, if_false] at hf2
      exact .inl ⟨f2, hf2, rfl⟩
  | genEnd id =>
    simp only [HOp.apply, resOk_eq_some] at e
    obtain ⟨f, f', hf, hk, hkeep, hs, hfs⟩ := meetGenerationEnd_eff e
    obtain ⟨_, _, _, _, _, _, hip⟩ := FoldFSM.meetGenerationEnd_eff hk
    refine ⟨hs, .inl (by simp [TraceHandler.sizes, TraceHandler.tr, hkeep]), ?_⟩
    intro id' f2 hf2
    rw [hfs id'] at hf2
    by_cases h2 : id' = id
    · simp only [h2, if_true, Option.some.injEq] at hf2
      subst hf2; subst h2
      exact .inl ⟨f, hf, hip⟩
    · simp only [h2, if_false] at hf2
      exact .inl ⟨f2, hf2, rfl⟩
  | foldEnd id =>
    simp only [HOp.apply, resOk_eq_some] at e
    obtain ⟨f, hf, ht, hs, hfs⟩ := meetFoldEnd_eff e
    obtain ⟨hu, _⟩ := g.foldUnit id f hf
    refine ⟨hs, .inl ?_, ?_⟩
    · simp only [TraceHandler.sizes, ht]
      exact sizes_setAt_leaf _ _ _ rfl hu
    · intro id' f2 hf2
      rw [hfs id'] at hf2
      by_cases h2 : id' = id
      · simp [h2] at hf2
      · simp only [h2, if_false] at hf2
        exact .inl ⟨f2, hf2, rfl⟩
  | updateGeneration p gen =>
    simp only [HOp.apply, resOk_eq_some] at e
    obtain ⟨hs, hfm, hcase⟩ := updateGeneration_eff e
    refine ⟨hs, .inl ?_, fun id f' hf' => .inl ⟨f', by simpa [TraceHandler.fsm, hfm] using hf', rfl⟩⟩
    rcases hcase with ⟨gens, hp, ht⟩ | ⟨cid, g0, hp, ht⟩
    · simp only [TraceHandler.sizes, ht]
      exact sizes_setAt_leaf _ _ _ rfl (by simp [List.getElem?_map, hp, parSizes])
    · simp only [TraceHandler.sizes, ht]
      exact sizes_setAt_leaf _ _ _ rfl (by simp [List.getElem?_map, hp, parSizes])

end Aqua.Trace
