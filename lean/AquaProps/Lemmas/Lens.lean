import Aqua.Exec.Lens
/-! Lemmas for C24: one accessor of the applier against one step of plain navigation; the index of a
canon map against plain filtering of its key-value pairs. -/
namespace AquaProps.Lemmas.Lens
open Aqua Aqua.Json Aqua.Air Aqua.Exec Aqua.Exec.Lens

/-! ## the environment -/

/-- looking a name up in the store does not panic and does not meet a name that is both a visible scalar and a fold
iterator (`IterableShadowing`, uncatchable — an `unreachable!()` before /repo 66d8bd2), and peeking at the element a
fold iterator points at does not panic (an iterator in scope points at an element) -/
def EnvTotal (sc : Scalars) : Prop :=
  ∀ name, ((∀ s, sc.getValue name ≠ .panic s) ∧ sc.getValue name ≠ .error (.uncatchable (.iterableShadowing name))) ∧
    (∀ r, sc.getValue name = .ok r → ∀ s, scalarRefValue r ≠ .panic s)

/-- the errors a lens application may end in -/
def IsLensFailure : ExecErr → Prop
  | .catchable (.lambdaApplierError _) => True
  | .catchable (.lengthFunctorAppliedToNotArray _) => True
  | .catchable (.variableNotFound _) => True
  | .catchable (.variableWasNotInitializedAfterNew _) => True
  | _ => False

/-- ok, or a lens failure -/
def OkOrLensFailure {α} (r : ER α) : Prop := (∃ a, r = .ok a) ∨ (∃ e, r = .error e ∧ IsLensFailure e)

theorem getValue_error (sc : Scalars) (name : String) (e : ExecErr) (h : sc.getValue name = .error e) :
    e = .catchable (.variableNotFound name) ∨ e = .catchable (.variableWasNotInitializedAfterNew name) ∨
      e = .uncatchable (.iterableShadowing name) := by
  simp only [Scalars.getValue] at h
  split at h <;> simp_all [catchable, uncatchable]

theorem getValue_error_lens (sc : Scalars) (name : String) (e : ExecErr) (h : sc.getValue name = .error e)
    (hc : sc.getValue name ≠ .error (.uncatchable (.iterableShadowing name))) : IsLensFailure e := by
  rcases getValue_error sc name e h with h' | h' | h' <;> subst h'
  · trivial
  · trivial
  · exact absurd h hc

theorem scalarRefValue_not_error (r : ScalarRef) (e : ExecErr) : scalarRefValue r ≠ .error e := by
  cases r with
  | value v => simp [scalarRefValue]
  | iterableValue f =>
    simp only [scalarRefValue]
    intro h
    have hp : ∀ e, f.iterable.peek ≠ .error e := by
      intro e
      unfold IterableValue.peek
      split
      · split
        · simp
        · split
          · split <;> simp
          · simp
      · split
        · simp
        · split <;> simp
      · split
        · simp
        · split <;> simp
    unfold IterableValue.peekExpect at h
    cases hq : f.iterable.peek with
    | error e' => exact hp e' hq
    | panic s => simp [hq, bind, Res.bind] at h
    | ok o =>
      cases o with
      | none => simp [hq, bind, Res.bind] at h
      | some x => simp [hq, bind, Res.bind, pure] at h

/-- `select_by_scalar` is: take the value the reference denotes, use it as an accessor -/
theorem selectByScalar_eq (v : JVal) (r : ScalarRef) :
    selectByScalar v r = (scalarRefValue r).bind fun a => liftLambda (selectByJvalue v a) := by
  cases r with
  | value x => simp [selectByScalar, scalarRefValue, Res.bind]
  | iterableValue f =>
    simp only [selectByScalar, scalarRefValue]
    cases f.iterable.peekExpect <;> simp [bind, Res.bind, pure]

theorem tryScalarRefAsIdx_eq (r : ScalarRef) :
    tryScalarRefAsIdx r = (scalarRefValue r).bind fun a => liftLambda (tryJvalueAsIdx a) := by
  cases r with
  | value x => simp [tryScalarRefAsIdx, scalarRefValue, Res.bind]
  | iterableValue f =>
    simp only [tryScalarRefAsIdx, scalarRefValue]
    cases f.iterable.peekExpect <;> simp [bind, Res.bind, pure]

/-! ## one accessor -/

theorem getField_obj_eq_member (kvs : List (String × JVal)) (k : String) :
    (JVal.obj kvs).getField k = member k kvs := by
  simp only [JVal.getField]
  induction kvs with
  | nil => simp [member]
  | cons p rest ih =>
    obtain ⟨k', v⟩ := p
    by_cases h : k' = k
    · simp [List.find?, member, h]
    · have : (k' == k) = false := by simp [h]
      simp only [List.find?, this, member, h, if_false]
      exact ih

theorem liftLambda_ok {α} (r : Res LambdaErr α) (a : α) : liftLambda r = .ok a ↔ r = .ok a := by
  cases r <;> simp [liftLambda, Res.mapErr]

theorem tryJvalueWithIdx_ok (v : JVal) (i : Nat) (r : JVal) :
    tryJvalueWithIdx v i = .ok r ↔ navigateStep v (.idx i) = some r := by
  cases v <;> simp [tryJvalueWithIdx, navigateStep]
  rename_i a
  cases h : a[i]? <;> simp

theorem tryJvalueWithFieldName_ok (v : JVal) (k : String) (r : JVal) :
    tryJvalueWithFieldName v k = .ok r ↔ navigateStep v (.key k) = some r := by
  cases v <;> simp [tryJvalueWithFieldName, navigateStep]
  rename_i kvs
  rw [getField_obj_eq_member]
  cases h : member k kvs <;> simp

/-- a value used as an accessor selects what the step it denotes selects -/
theorem selectByJvalue_ok (v a r : JVal) :
    selectByJvalue v a = .ok r ↔ ∃ s, stepOfValue a = some s ∧ navigateStep v s = some r := by
  cases a with
  | str k => simp [selectByJvalue, stepOfValue, tryJvalueWithFieldName_ok]
  | num i =>
    simp only [selectByJvalue, tryNumberToU32, stepOfValue]
    by_cases h : 0 ≤ i ∧ i ≤ 4294967295
    · simp [h, Res.bind, tryJvalueWithIdx_ok]
    · simp [h, Res.bind]
  | null => simp [selectByJvalue, stepOfValue]
  | bool b => simp [selectByJvalue, stepOfValue]
  | float f => simp [selectByJvalue, stepOfValue]
  | arr l => simp [selectByJvalue, stepOfValue]
  | obj o => simp [selectByJvalue, stepOfValue]

/-- the applier on a one-accessor path -/
def applyAccessor (sc : Scalars) (v : JVal) (a : ValueAccessor) : ER JVal := Lens.selectByPathFromScalar sc v [a]

theorem select_cons (sc : Scalars) (v : JVal) (a : ValueAccessor) (rest : List ValueAccessor) :
    Lens.selectByPathFromScalar sc v (a :: rest) =
      (applyAccessor sc v a).bind fun v' => Lens.selectByPathFromScalar sc v' rest := by
  cases a with
  | arrayAccess i =>
    simp only [applyAccessor, Lens.selectByPathFromScalar]
    generalize liftLambda (tryJvalueWithIdx v i) = x; cases x <;> simp [Res.bind, Lens.selectByPathFromScalar]
  | fieldAccessByName n =>
    simp only [applyAccessor, Lens.selectByPathFromScalar]
    generalize liftLambda (tryJvalueWithFieldName v n) = x; cases x <;> simp [Res.bind, Lens.selectByPathFromScalar]
  | fieldAccessByScalar s =>
    simp only [applyAccessor, Lens.selectByPathFromScalar]
    cases sc.getValue s with
    | ok r =>
      simp only []
      cases hx : selectByScalar v r <;> simp [Res.bind]
    | error e => simp [Res.bind]
    | panic p => simp [Res.bind]
  | error => simp [applyAccessor, Lens.selectByPathFromScalar, Res.bind]

/-- **one accessor = one step**: it succeeds with `r` exactly when the accessor denotes a step and plain
navigation by that step gives `r` -/
theorem applyAccessor_ok (sc : Scalars) (v : JVal) (a : ValueAccessor) (r : JVal) :
    applyAccessor sc v a = .ok r ↔ ∃ s, resolveStep sc a = some s ∧ navigateStep v s = some r := by
  cases a with
  | arrayAccess i =>
    simp only [applyAccessor, Lens.selectByPathFromScalar, resolveStep]
    cases h : tryJvalueWithIdx v i with
    | ok x =>
      have := (tryJvalueWithIdx_ok v i x).mp h
      simp [liftLambda, Res.mapErr, Lens.selectByPathFromScalar, this]
    | error e =>
      have : ∀ r, navigateStep v (.idx i) ≠ some r := fun r hr => by
        have := (tryJvalueWithIdx_ok v i r).mpr hr; rw [h] at this; cases this
      simp [liftLambda, Res.mapErr, this]
    | panic p =>
      have : ∀ r, navigateStep v (.idx i) ≠ some r := fun r hr => by
        have := (tryJvalueWithIdx_ok v i r).mpr hr; rw [h] at this; cases this
      simp [liftLambda, Res.mapErr, this]
  | fieldAccessByName n =>
    simp only [applyAccessor, Lens.selectByPathFromScalar, resolveStep]
    cases h : tryJvalueWithFieldName v n with
    | ok x =>
      have := (tryJvalueWithFieldName_ok v n x).mp h
      simp [liftLambda, Res.mapErr, Lens.selectByPathFromScalar, this]
    | error e =>
      have : ∀ r, navigateStep v (.key n) ≠ some r := fun r hr => by
        have := (tryJvalueWithFieldName_ok v n r).mpr hr; rw [h] at this; cases this
      simp [liftLambda, Res.mapErr, this]
    | panic p =>
      have : ∀ r, navigateStep v (.key n) ≠ some r := fun r hr => by
        have := (tryJvalueWithFieldName_ok v n r).mpr hr; rw [h] at this; cases this
      simp [liftLambda, Res.mapErr, this]
  | fieldAccessByScalar s =>
    simp only [applyAccessor, Lens.selectByPathFromScalar, resolveStep, scalarValue]
    cases hg : sc.getValue s with
    | error e => simp
    | panic p => simp
    | ok ref =>
      simp only [selectByScalar_eq]
      cases hv : scalarRefValue ref with
      | error e => simp [Res.bind]
      | panic p => simp [Res.bind]
      | ok a =>
        simp only [Res.bind, Option.bind]
        cases hs : liftLambda (selectByJvalue v a) with
        | ok x =>
          have := (selectByJvalue_ok v a x).mp ((liftLambda_ok _ _).mp hs)
          simp only [Lens.selectByPathFromScalar]
          constructor
          · intro h; injection h with h; subst h; exact this
          · rintro ⟨st, h1, h2⟩
            obtain ⟨st', h1', h2'⟩ := this
            rw [h1] at h1'; injection h1' with h1'; subst h1'
            rw [h2] at h2'; injection h2' with h2'; rw [h2']
        | error e =>
          constructor
          · intro h; cases h
          · rintro ⟨st, h1, h2⟩
            have := (liftLambda_ok _ _).mpr ((selectByJvalue_ok v a r).mpr ⟨st, h1, h2⟩)
            rw [hs] at this; cases this
        | panic p =>
          constructor
          · intro h; cases h
          · rintro ⟨st, h1, h2⟩
            have := (liftLambda_ok _ _).mpr ((selectByJvalue_ok v a r).mpr ⟨st, h1, h2⟩)
            rw [hs] at this; cases this
  | error => simp [applyAccessor, Lens.selectByPathFromScalar, resolveStep]

theorem liftLambda_lens {α} (r : Res LambdaErr α) (hp : ∀ s, r ≠ .panic s) : OkOrLensFailure (liftLambda r) := by
  cases r with
  | ok a => exact .inl ⟨a, rfl⟩
  | error e => exact .inr ⟨_, rfl, trivial⟩
  | panic s => exact absurd rfl (hp s)

theorem tryJvalueWithIdx_no_panic (v : JVal) (i : Nat) (s : String) : tryJvalueWithIdx v i ≠ .panic s := by
  cases v <;> simp [tryJvalueWithIdx]
  rename_i a; cases a[i]? <;> simp

theorem tryJvalueWithFieldName_no_panic (v : JVal) (k : String) (s : String) : tryJvalueWithFieldName v k ≠ .panic s := by
  cases v <;> simp [tryJvalueWithFieldName]
  rename_i kvs; cases (JVal.obj kvs).getField k <;> simp

theorem selectByJvalue_no_panic (v a : JVal) (s : String) : selectByJvalue v a ≠ .panic s := by
  cases a with
  | str k => simpa [selectByJvalue] using tryJvalueWithFieldName_no_panic v k s
  | num i =>
    simp only [selectByJvalue, tryNumberToU32]
    split
    · simpa [Res.bind] using tryJvalueWithIdx_no_panic v _ s
    · simp [Res.bind]
  | null => simp [selectByJvalue]
  | bool b => simp [selectByJvalue]
  | float f => simp [selectByJvalue]
  | arr l => simp [selectByJvalue]
  | obj o => simp [selectByJvalue]

/-- one accessor never panics and fails only with a lens failure (given a total environment and a parsed accessor) -/
theorem applyAccessor_total (sc : Scalars) (henv : EnvTotal sc) (v : JVal) (a : ValueAccessor) (ha : a ≠ .error) :
    OkOrLensFailure (applyAccessor sc v a) := by
  cases a with
  | arrayAccess i =>
    simp only [applyAccessor, Lens.selectByPathFromScalar]
    rcases liftLambda_lens _ (tryJvalueWithIdx_no_panic v i) with ⟨x, h⟩ | ⟨e, h, he⟩
    · rw [h]; exact .inl ⟨x, rfl⟩
    · rw [h]; exact .inr ⟨e, rfl, he⟩
  | fieldAccessByName n =>
    simp only [applyAccessor, Lens.selectByPathFromScalar]
    rcases liftLambda_lens _ (tryJvalueWithFieldName_no_panic v n) with ⟨x, h⟩ | ⟨e, h, he⟩
    · rw [h]; exact .inl ⟨x, rfl⟩
    · rw [h]; exact .inr ⟨e, rfl, he⟩
  | fieldAccessByScalar s =>
    simp only [applyAccessor, Lens.selectByPathFromScalar]
    obtain ⟨⟨hnp, hclash⟩, hpeek⟩ := henv s
    cases hg : sc.getValue s with
    | panic p => exact absurd hg (hnp p)
    | error e => exact .inr ⟨e, rfl, getValue_error_lens sc s e hg hclash⟩
    | ok ref =>
      simp only [selectByScalar_eq]
      cases hv : scalarRefValue ref with
      | panic p => exact absurd hv (hpeek ref hg p)
      | error e => exact absurd hv (scalarRefValue_not_error ref e)
      | ok a =>
        simp only [Res.bind]
        rcases liftLambda_lens _ (selectByJvalue_no_panic v a) with ⟨x, h⟩ | ⟨e, h, he⟩
        · rw [h]; exact .inl ⟨x, rfl⟩
        · rw [h]; exact .inr ⟨e, rfl, he⟩
  | error => exact absurd rfl ha

/-! ## paths -/

theorem select_ok (sc : Scalars) (v : JVal) (path : List ValueAccessor) (r : JVal) :
    Lens.selectByPathFromScalar sc v path = .ok r ↔
      ∃ steps, resolveSteps sc path = some steps ∧ navigate v steps = some r := by
  induction path generalizing v with
  | nil => simp [Lens.selectByPathFromScalar, resolveSteps, navigate]
  | cons a rest ih =>
    rw [select_cons]
    constructor
    · intro h
      cases ha : applyAccessor sc v a with
      | ok v' =>
        rw [ha] at h
        obtain ⟨s, hs, hn⟩ := (applyAccessor_ok sc v a v').mp ha
        obtain ⟨ss, hss, hnn⟩ := (ih v').mp h
        exact ⟨s :: ss, by simp [resolveSteps, hs, hss], by simp [navigate, hn, hnn]⟩
      | error e => rw [ha] at h; cases h
      | panic p => rw [ha] at h; cases h
    · rintro ⟨steps, hres, hnav⟩
      simp only [resolveSteps] at hres
      cases hs : resolveStep sc a with
      | none => simp [hs] at hres
      | some s =>
        cases hss : resolveSteps sc rest with
        | none => simp [hs, hss] at hres
        | some ss =>
          simp only [hs, hss] at hres
          injection hres with hres; subst hres
          simp only [navigate] at hnav
          cases hn : navigateStep v s with
          | none => simp [hn] at hnav
          | some v' =>
            simp only [hn] at hnav
            have := (applyAccessor_ok sc v a v').mpr ⟨s, hs, hn⟩
            rw [this]
            exact (ih v').mpr ⟨ss, hss, hnav⟩

theorem select_total (sc : Scalars) (henv : EnvTotal sc) (v : JVal) (path : List ValueAccessor)
    (hp : ∀ a ∈ path, a ≠ ValueAccessor.error) : OkOrLensFailure (Lens.selectByPathFromScalar sc v path) := by
  induction path generalizing v with
  | nil => exact .inl ⟨v, rfl⟩
  | cons a rest ih =>
    rw [select_cons]
    rcases applyAccessor_total sc henv v a (hp a (by simp)) with ⟨v', h⟩ | ⟨e, h, he⟩
    · rw [h]; exact ih v' (fun b hb => hp b (by simp [hb]))
    · rw [h]; exact .inr ⟨e, rfl, he⟩

theorem select_append (sc : Scalars) (v : JVal) (p q : List ValueAccessor) :
    Lens.selectByPathFromScalar sc v (p ++ q) =
      (Lens.selectByPathFromScalar sc v p).bind fun v' => Lens.selectByPathFromScalar sc v' q := by
  induction p generalizing v with
  | nil => simp [Lens.selectByPathFromScalar, Res.bind]
  | cons a rest ih =>
    rw [List.cons_append, select_cons, select_cons]
    cases applyAccessor sc v a with
    | ok v' => simp only [Res.bind]; exact ih v'
    | error e => simp [Res.bind]
    | panic s => simp [Res.bind]

/-! ## canon streams: the first accessor -/

theorem tryJvalueAsIdx_ok (a : JVal) (i : Nat) : tryJvalueAsIdx a = .ok i ↔ stepOfValue a = some (.idx i) := by
  cases a with
  | num n =>
    simp only [tryJvalueAsIdx, tryNumberToU32, stepOfValue]
    by_cases h : 0 ≤ n ∧ n ≤ 4294967295 <;> simp [h]
  | str k => simp [tryJvalueAsIdx, stepOfValue]
  | null => simp [tryJvalueAsIdx, stepOfValue]
  | bool b => simp [tryJvalueAsIdx, stepOfValue]
  | float f => simp [tryJvalueAsIdx, tryNumberToU32, stepOfValue]
  | arr l => simp [tryJvalueAsIdx, stepOfValue]
  | obj o => simp [tryJvalueAsIdx, stepOfValue]

theorem tryJvalueAsIdx_no_panic (a : JVal) (s : String) : tryJvalueAsIdx a ≠ .panic s := by
  cases a <;> simp [tryJvalueAsIdx, tryNumberToU32]
  split <;> simp

/-- `split_to_idx` succeeds with `i` exactly when the accessor denotes the index step `i` -/
theorem splitToIdx_ok (sc : Scalars) (h : ValueAccessor) (i : Nat) :
    splitToIdx sc h = .ok i ↔ resolveStep sc h = some (.idx i) := by
  cases h with
  | arrayAccess j => simp [splitToIdx, resolveStep]
  | fieldAccessByName n => simp [splitToIdx, resolveStep, lambdaErr, catchable]
  | fieldAccessByScalar s =>
    simp only [splitToIdx, resolveStep, scalarValue]
    cases hg : sc.getValue s with
    | error e => simp
    | panic p => simp
    | ok ref =>
      simp only [tryScalarRefAsIdx_eq]
      cases hv : scalarRefValue ref with
      | error e => simp [Res.bind]
      | panic p => simp [Res.bind]
      | ok a => simp [Res.bind, liftLambda_ok, tryJvalueAsIdx_ok]
  | error => simp [splitToIdx, resolveStep]

theorem splitToIdx_total (sc : Scalars) (henv : EnvTotal sc) (h : ValueAccessor) (hh : h ≠ .error) :
    OkOrLensFailure (splitToIdx sc h) := by
  cases h with
  | arrayAccess j => exact .inl ⟨j, rfl⟩
  | fieldAccessByName n => exact .inr ⟨_, rfl, trivial⟩
  | fieldAccessByScalar s =>
    simp only [splitToIdx]
    obtain ⟨⟨hnp, hclash⟩, hpeek⟩ := henv s
    cases hg : sc.getValue s with
    | panic p => exact absurd hg (hnp p)
    | error e => exact .inr ⟨e, rfl, getValue_error_lens sc s e hg hclash⟩
    | ok ref =>
      simp only [tryScalarRefAsIdx_eq]
      cases hv : scalarRefValue ref with
      | panic p => exact absurd hv (hpeek ref hg p)
      | error e => exact absurd hv (scalarRefValue_not_error ref e)
      | ok a =>
        simp only [Res.bind]
        rcases liftLambda_lens _ (tryJvalueAsIdx_no_panic a) with ⟨x, h⟩ | ⟨e, h, he⟩
        · rw [h]; exact .inl ⟨x, rfl⟩
        · rw [h]; exact .inr ⟨e, rfl, he⟩
  | error => exact absurd rfl hh

/-- on an array only an index step navigates -/
theorem navigateStep_arr (l : List JVal) (s : Step) (x : JVal) (hs : s ≠ .length) :
    navigateStep (.arr l) s = some x ↔ ∃ i, s = .idx i ∧ l[i]? = some x := by
  cases s <;> simp [navigateStep] at hs ⊢

theorem resolveStep_ne_length (sc : Scalars) (a : ValueAccessor) (s : Step) (h : resolveStep sc a = some s) : s ≠ .length := by
  cases a with
  | arrayAccess i => simp [resolveStep] at h; subst h; simp
  | fieldAccessByName n => simp [resolveStep] at h; subst h; simp
  | fieldAccessByScalar n =>
    simp only [resolveStep] at h
    cases hv : scalarValue sc n with
    | none => simp [hv] at h
    | some a =>
      simp only [hv, Option.bind] at h
      cases a <;> simp [stepOfValue] at h
      · obtain ⟨_, h⟩ := h; subst h; simp
      · subst h; simp
  | error => simp [resolveStep] at h

/-! ## canon maps: the index against plain filtering -/

def lookupKey (m : List (StreamMapKey × List JVal)) (k : StreamMapKey) : Option (List JVal) :=
  (m.find? (fun (k', _) => k' = k)).map (·.2)

theorem lookupKey_entryPush (m : List (StreamMapKey × List JVal)) (k k' : StreamMapKey) (v : JVal) :
    lookupKey (entryPush m k v) k' =
      if k' = k then some ((lookupKey m k).getD [] ++ [v]) else lookupKey m k' := by
  induction m with
  | nil =>
    by_cases h : k' = k
    · subst h; simp [entryPush, lookupKey]
    · have : ¬ k = k' := fun e => h e.symm
      simp [entryPush, lookupKey, h, this]
  | cons p rest ih =>
    obtain ⟨k0, vs⟩ := p
    simp only [entryPush]
    by_cases h0 : k0 = k
    · subst h0
      by_cases h : k' = k0
      · subst h; simp [lookupKey]
      · have : ¬ k0 = k' := fun e => h e.symm
        simp [lookupKey, h, this]
    · simp only [h0, if_false]
      by_cases h : k' = k
      · subst h
        simp only [lookupKey, List.find?, h0, decide_false, if_true] at ih ⊢
        exact ih
      · by_cases h1 : k0 = k'
        · subst h1; simp [lookupKey, h]
        · simp only [lookupKey, List.find?, h1, decide_false, h, if_false] at ih ⊢
          exact ih

/-- what one key-value pair contributes to the group of `k` -/
def pairContribution (kv : JVal) (k : StreamMapKey) : List JVal :=
  match StreamMapKey.fromKvpairOwned kv, kv.getField valueFieldName with
  | some k', some v => if k' = k then [v] else []
  | _, _ => []

theorem keyGroup_cons (kv : JVal) (rest : List JVal) (k : StreamMapKey) :
    keyGroup (kv :: rest) k = pairContribution kv k ++ keyGroup rest k := by
  simp only [keyGroup, List.filterMap_cons, pairContribution]
  cases StreamMapKey.fromKvpairOwned kv with
  | none => simp
  | some k' =>
    cases kv.getField valueFieldName with
    | none => simp
    | some v => by_cases h : k' = k <;> simp [h]

def combine (o : Option (List JVal)) (g : List JVal) : Option (List JVal) :=
  if g = [] then o else some (o.getD [] ++ g)

theorem loop_index (acc : List (StreamMapKey × List JVal)) (rest : List JVal) (m : List (StreamMapKey × List JVal))
    (h : fromCanonStreamLoop acc rest = .ok m) (k : StreamMapKey) :
    lookupKey m k = combine (lookupKey acc k) (keyGroup rest k) := by
  induction rest generalizing acc with
  | nil =>
    simp only [fromCanonStreamLoop] at h
    injection h with h; subst h
    simp [keyGroup, combine]
  | cons kv rest ih =>
    simp only [fromCanonStreamLoop] at h
    cases hk : StreamMapKey.fromKvpairOwned kv with
    | none => simp [hk, uncatchable] at h
    | some key =>
      simp only [hk] at h
      cases hv : getValueFromObj kv with
      | error e => simp [hv] at h
      | panic p => simp [hv] at h
      | ok v =>
        simp only [hv] at h
        have hfield : kv.getField valueFieldName = some v := by
          unfold getValueFromObj at hv
          split at hv
          · split at hv
            · rename_i hf; injection hv with hv; subst hv; exact hf
            · simp [uncatchable] at hv
          · simp [uncatchable] at hv
        rw [ih _ h, lookupKey_entryPush, keyGroup_cons]
        simp only [pairContribution, hk, hfield]
        by_cases hkk : k = key
        · subst hkk
          simp only [if_true, combine]
          by_cases hg : keyGroup rest k = []
          · simp [hg]
          · simp [hg]
        · have : ¬ key = k := fun e => hkk e.symm
          simp [hkk, this]

/-- the index of a canon map built from `pairs`: the non-empty groups of plain filtering -/
theorem index_eq_keyGroup (pairs : List JVal) (m : CanonStreamMap) (h : CanonStreamMap.fromCanonStream pairs = .ok m)
    (k : StreamMapKey) :
    m.index k = if keyGroup pairs k = [] then none else some (keyGroup pairs k) := by
  unfold CanonStreamMap.fromCanonStream at h
  cases hl : fromCanonStreamLoop [] pairs with
  | error e => simp [hl] at h
  | panic p => simp [hl] at h
  | ok mm =>
    simp only [hl] at h
    injection h with h; subst h
    have := loop_index [] pairs mm hl k
    simp only [lookupKey, List.find?, Option.map, combine, Option.getD, List.nil_append] at this
    simp only [CanonStreamMap.index]
    exact this

theorem values_of_fromCanonStream (pairs : List JVal) (m : CanonStreamMap) (h : CanonStreamMap.fromCanonStream pairs = .ok m) :
    m.values = pairs := by
  unfold CanonStreamMap.fromCanonStream at h
  cases hl : fromCanonStreamLoop [] pairs with
  | error e => simp [hl] at h
  | panic p => simp [hl] at h
  | ok mm => simp only [hl] at h; injection h with h; subst h; rfl

/-- the key the first accessor of a canon-map lens denotes -/
theorem canonMapKeyOfPrefix_ok (sc : Scalars) (h : ValueAccessor) (k : StreamMapKey) :
    canonMapKeyOfPrefix sc h = .ok k ↔ resolveMapKey sc h = some k := by
  cases h with
  | arrayAccess i => simp [canonMapKeyOfPrefix, resolveMapKey, StreamMapKey.ofU32]
  | fieldAccessByName n => simp [canonMapKeyOfPrefix, resolveMapKey]
  | fieldAccessByScalar s =>
    simp only [canonMapKeyOfPrefix, resolveMapKey]
    cases hg : sc.getValue s with
    | error e => simp
    | panic p => simp
    | ok ref =>
      cases ref with
      | value x =>
        simp only [tryScalarRefAsStreamMapKey]
        cases StreamMapKey.fromValue x.result <;> simp [liftLambda, Res.mapErr]
      | iterableValue f => simp [tryScalarRefAsStreamMapKey, liftLambda, Res.mapErr]
  | error => simp [canonMapKeyOfPrefix, resolveMapKey]

theorem canonMapKeyOfPrefix_total (sc : Scalars) (henv : EnvTotal sc) (h : ValueAccessor) (hh : h ≠ .error) :
    OkOrLensFailure (canonMapKeyOfPrefix sc h) := by
  cases h with
  | arrayAccess i => exact .inl ⟨_, rfl⟩
  | fieldAccessByName n => exact .inl ⟨_, rfl⟩
  | fieldAccessByScalar s =>
    simp only [canonMapKeyOfPrefix]
    cases hg : sc.getValue s with
    | panic p => exact absurd hg ((henv s).1.1 p)
    | error e => exact .inr ⟨e, rfl, getValue_error_lens sc s e hg (henv s).1.2⟩
    | ok ref =>
      cases htr : tryScalarRefAsStreamMapKey ref with
      | ok k => exact .inl ⟨k, by simp [liftLambda, Res.mapErr, htr]⟩
      | error e => exact .inr ⟨.catchable (.lambdaApplierError e), by simp [liftLambda, Res.mapErr, htr], trivial⟩
      | panic p =>
        cases ref with
        | value x =>
          simp only [tryScalarRefAsStreamMapKey] at htr
          split at htr <;> cases htr
        | iterableValue f => simp [tryScalarRefAsStreamMapKey] at htr
  | error => exact absurd rfl hh

/-! ## the JSON form of a canon map -/

theorem member_insertSorted (k k' : String) (v : JVal) (l : List (String × JVal)) :
    member k (insertSorted k' v l) = if k' = k then some v else member k l := by
  induction l with
  | nil => simp [insertSorted, member]
  | cons p rest ih =>
    obtain ⟨k0, v0⟩ := p
    simp only [insertSorted]
    by_cases h1 : k' = k0
    · subst h1
      by_cases h2 : k' = k
      · subst h2; simp [member]
      · simp [member, h2]
    · have hb : (k' == k0) = false := by simp [h1]
      simp only [hb, Bool.false_eq_true, if_false]
      by_cases h3 : strLt k' k0 = true
      · simp only [h3, if_true]
        by_cases h2 : k' = k
        · subst h2; simp [member]
        · simp [member, h2]
      · simp only [h3, if_false, Bool.false_eq_true]
        by_cases h2 : k' = k
        · subst h2
          simp only [member, ih, if_true]
          have : ¬ k0 = k' := fun e => h1 e.symm
          simp [this]
        · simp only [member, ih, h2, if_false]

theorem member_foldl (k : String) (kvs : List (String × JVal)) (acc : List (String × JVal)) :
    member k (kvs.foldl (fun acc (p : String × JVal) => insertSorted p.1 p.2 acc) acc) =
      match (kvs.reverse.find? (fun p => p.1 = k)) with
      | some p => some p.2
      | none => member k acc := by
  induction kvs generalizing acc with
  | nil => simp
  | cons p rest ih =>
    simp only [List.foldl_cons, ih, List.reverse_cons, List.find?_append]
    cases h : List.find? (fun p => decide (p.1 = k)) rest.reverse with
    | some q => simp
    | none =>
      simp only [Option.none_or, List.find?_cons, List.find?_nil]
      rw [member_insertSorted]
      by_cases hk : p.1 = k <;> simp [hk]

theorem keys_entryPush (m : List (StreamMapKey × List JVal)) (k : StreamMapKey) (v : JVal) :
    (entryPush m k v).map (·.1) = if k ∈ m.map (·.1) then m.map (·.1) else m.map (·.1) ++ [k] := by
  induction m with
  | nil => simp [entryPush]
  | cons p rest ih =>
    obtain ⟨k0, vs⟩ := p
    simp only [entryPush]
    by_cases h : k0 = k
    · subst h; simp
    · have h' : ¬ k = k0 := fun e => h e.symm
      simp only [h, if_false, List.map_cons, ih, List.mem_cons, h', false_or]
      split <;> simp

theorem nodup_entryPush (m : List (StreamMapKey × List JVal)) (k : StreamMapKey) (v : JVal)
    (h : (m.map (·.1)).Nodup) : ((entryPush m k v).map (·.1)).Nodup := by
  rw [keys_entryPush]
  split
  · exact h
  · rename_i hk
    rw [List.nodup_append]
    refine ⟨h, by simp, ?_⟩
    intro a ha b hb
    simp at hb; subst hb
    intro e; subst e; exact hk ha

theorem nodup_loop (acc : List (StreamMapKey × List JVal)) (rest : List JVal) (m : List (StreamMapKey × List JVal))
    (h : fromCanonStreamLoop acc rest = .ok m) (hn : (acc.map (·.1)).Nodup) : (m.map (·.1)).Nodup := by
  induction rest generalizing acc with
  | nil => simp only [fromCanonStreamLoop] at h; injection h with h; subst h; exact hn
  | cons kv rest ih =>
    simp only [fromCanonStreamLoop] at h
    cases hk : StreamMapKey.fromKvpairOwned kv with
    | none => simp [hk, uncatchable] at h
    | some key =>
      simp only [hk] at h
      cases hv : getValueFromObj kv with
      | error e => simp [hv] at h
      | panic p => simp [hv] at h
      | ok v => simp only [hv] at h; exact ih _ h (nodup_entryPush acc key v hn)

theorem nodup_unique (l : List (StreamMapKey × List JVal)) (hn : (l.map (·.1)).Nodup) (k : StreamMapKey) (g g' : List JVal)
    (h1 : (k, g) ∈ l) (h2 : (k, g') ∈ l) : g = g' := by
  induction l with
  | nil => cases h1
  | cons p rest ih =>
    simp only [List.map_cons, List.nodup_cons] at hn
    obtain ⟨hnot, hrest⟩ := hn
    rcases List.mem_cons.mp h1 with e1 | e1 <;> rcases List.mem_cons.mp h2 with e2 | e2
    · rw [← e1] at e2; injection e2 with _ e3; exact e3.symm
    · exfalso; apply hnot; subst e1; exact List.mem_map.mpr ⟨(k, g'), e2, rfl⟩
    · exfalso; apply hnot; subst e2; exact List.mem_map.mpr ⟨(k, g), e1, rfl⟩
    · exact ih hrest e1 e2

theorem asJson_member (m : CanonStreamMap) (hn : (m.map.map (·.1)).Nodup)
    (hinj : ∀ k k', k ∈ m.map.map (·.1) → k' ∈ m.map.map (·.1) → k.toKey = k'.toKey → k = k')
    (k : StreamMapKey) (group : List JVal) (hk : m.index k = some group) :
    navigateStep (m.asJvalue) (.key k.toKey) = some (.arr group) := by
  have hmem : (k, group) ∈ m.map := by
    simp only [CanonStreamMap.index] at hk
    cases hf : m.map.find? (fun x => decide (x.1 = k)) with
    | none => simp [hf] at hk
    | some p =>
      simp only [hf, Option.map] at hk
      have h1 := List.mem_of_find?_eq_some hf
      have h2 := List.find?_some hf
      simp at h2
      obtain ⟨a, b⟩ := p
      simp at hk h2; subst hk; subst h2; exact h1
  simp only [CanonStreamMap.asJvalue, JVal.mkObj, navigateStep]
  have := member_foldl k.toKey (m.map.map fun x => (x.1.toKey, JVal.arr x.2)) []
  rw [show (fun acc (x : String × JVal) => insertSorted x.1 x.2 acc) = (fun acc x => match x with | (k, v) => insertSorted k v acc) from rfl] at this
  rw [this]
  cases hf : (List.map (fun x : StreamMapKey × List JVal => (x.1.toKey, JVal.arr x.2)) m.map).reverse.find? (fun p => decide (p.1 = k.toKey)) with
  | none =>
    exfalso
    have := List.find?_eq_none.mp hf (k.toKey, JVal.arr group) (List.mem_reverse.mpr (List.mem_map.mpr ⟨(k, group), hmem, rfl⟩))
    simp at this
  | some q =>
    have h1 := List.mem_of_find?_eq_some hf
    have h2 := List.find?_some hf
    simp at h1 h2
    obtain ⟨k0, g0, hm0, hq⟩ := h1
    subst hq
    simp at h2
    have hk0 : k0 = k := hinj k0 k (List.mem_map.mpr ⟨(k0, g0), hm0, rfl⟩) (List.mem_map.mpr ⟨(k, group), hmem, rfl⟩) h2
    subst hk0
    have := nodup_unique m.map hn k0 g0 group hm0 hmem
    simp [this]

theorem mem_keys_iff_lookup (l : List (StreamMapKey × List JVal)) (k : StreamMapKey) :
    k ∈ l.map (·.1) ↔ ∃ g, lookupKey l k = some g := by
  induction l with
  | nil => simp [lookupKey]
  | cons p rest ih =>
    obtain ⟨k0, g0⟩ := p
    by_cases h : k0 = k
    · subst h; simp [lookupKey]
    · have h' : ¬ k = k0 := fun e => h e.symm
      simp only [List.map_cons, List.mem_cons, h', false_or, ih, lookupKey, List.find?, h, decide_false]

end AquaProps.Lemmas.Lens
