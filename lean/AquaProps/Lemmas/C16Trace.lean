import Aqua.Trace.Handler
/-!
# C16 lemmas, part 3: the trace handler never edits the input traces

The operations the flat fragment uses (`meetCallStart`, `meetCallEnd`, `meetParStart`,
`meetParSubgraphEnd`) only move the sliders; the previous and the current trace stay the lists they
were.  A call state handed out by `meetCallStart` is a call state of one of the two traces.
-/
namespace AquaProps.C16
open Aqua Aqua.Data Aqua.Trace

def KeeperSame (k k' : DataKeeper) : Prop := k'.prev.trace = k.prev.trace ∧ k'.cur.trace = k.cur.trace

theorem KeeperSame.refl (k : DataKeeper) : KeeperSame k k := ⟨rfl, rfl⟩
theorem KeeperSame.trans {a b c : DataKeeper} (h1 : KeeperSame a b) (h2 : KeeperSame b c) : KeeperSame a c :=
  ⟨h2.1.trans h1.1, h2.2.trans h1.2⟩

theorem nextState_trace (s : TraceSlider) : s.nextState.2.trace = s.trace := by
  unfold TraceSlider.nextState
  split
  · rfl
  · split <;> rfl

theorem nextState_mem (s : TraceSlider) (st : ExecutedState) (h : s.nextState.1 = some st) : st ∈ s.trace := by
  unfold TraceSlider.nextState at h
  split at h
  · cases h
  · split at h
    · cases h
    · rename_i st' hst
      injection h with h; subst h
      exact List.mem_of_getElem? hst

theorem setPositionAndLen_trace (s s' : TraceSlider) (p l : Nat) (h : s.setPositionAndLen p l = .ok s') : s'.trace = s.trace := by
  unfold TraceSlider.setPositionAndLen at h
  dsimp only at h
  split at h
  · cases h
  · injection h with h; subst h; rfl

theorem setSubtraceLen_trace (s s' : TraceSlider) (l : Nat) (h : s.setSubtraceLen l = .ok s') : s'.trace = s.trace := by
  unfold TraceSlider.setSubtraceLen at h
  dsimp only at h
  split at h
  · cases h
  · injection h with h; subst h; rfl

theorem nextStates_same (k : DataKeeper) : KeeperSame k (nextStates k).2.2 := by
  unfold nextStates
  exact ⟨nextState_trace k.prev, nextState_trace k.cur⟩

theorem nextStates_mem (k : DataKeeper) :
    (∀ st, (nextStates k).1 = some st → st ∈ k.prev.trace) ∧ (∀ st, (nextStates k).2.1 = some st → st ∈ k.cur.trace) := by
  unfold nextStates
  exact ⟨fun st h => nextState_mem k.prev st h, fun st h => nextState_mem k.cur st h⟩

theorem preparePositionsMapping_same (scheme : PreparationScheme) (k k' : DataKeeper)
    (h : preparePositionsMapping scheme k = .ok k') : KeeperSame k k' := by
  unfold preparePositionsMapping at h
  cases scheme <;> simp only [bind, Res.bind, subU32] at h
  · split at h
    · injection h with h; subst h; exact ⟨rfl, rfl⟩
    · cases h
    · cases h
  · split at h
    · injection h with h; subst h; exact ⟨rfl, rfl⟩
    · cases h
    · cases h
  · split at h
    · split at h
      · injection h with h; subst h; exact ⟨rfl, rfl⟩
      · cases h
      · cases h
    · cases h
    · cases h

theorem prepareCallResult_spec (r : CallResult) (scheme : PreparationScheme) (k k' : DataKeeper) (m : MergerCallResult)
    (h : prepareCallResult r scheme k = .ok (m, k')) : KeeperSame k k' ∧ ∃ pos src, m = .met ⟨r, pos, src⟩ := by
  unfold prepareCallResult at h
  simp only [bind, Res.bind] at h
  split at h
  · rename_i k1 hk1
    injection h with h; injection h with h1 h2; subst h1; subst h2
    exact ⟨preparePositionsMapping_same _ _ _ hk1, _, _, rfl⟩
  · cases h
  · cases h

/-- a call state handed out by the merger is a call state of the previous or of the current trace -/
theorem tryMergeNextStateAsCall_spec (k k' : DataKeeper) (m : MergerCallResult)
    (h : tryMergeNextStateAsCall k = .ok (m, k')) :
    KeeperSame k k' ∧ (m = .notMet ∨ ∃ r, (∃ pos src, m = .met ⟨r, pos, src⟩) ∧ (.call r ∈ k.prev.trace ∨ .call r ∈ k.cur.trace)) := by
  unfold tryMergeNextStateAsCall at h
  have hs := nextStates_same k
  have hm := nextStates_mem k
  generalize nextStates k = ns at h hs hm
  obtain ⟨p, c, k1⟩ := ns
  simp only at h hs hm
  split at h
  · -- both call states
    rename_i pc cc
    split at h
    · rename_i mr scheme hmerge
      obtain ⟨h1, h2⟩ := prepareCallResult_spec _ _ _ _ _ h
      refine ⟨hs.trans h1, Or.inr ⟨mr, h2, ?_⟩⟩
      have hp := hm.1 _ rfl
      have hc := hm.2 _ rfl
      -- the merged result is one of the two
      unfold mergeCallResults at hmerge
      split at hmerge
      · split at hmerge
        · injection hmerge with e; injection e with e1 _; subst e1; exact Or.inl hp
        · cases hmerge
      · injection hmerge with e; injection e with e1 _; subst e1; exact Or.inr hc
      · injection hmerge with e; injection e with e1 _; subst e1; exact Or.inl hp
      · injection hmerge with e; injection e with e1 _; subst e1; exact Or.inl hp
      · injection hmerge with e; injection e with e1 _; subst e1; exact Or.inr hc
      · injection hmerge with e; injection e with e1 _; subst e1; exact Or.inl hp
      · rename_i pv cv
        simp only [Res.bind] at hmerge
        split at hmerge
        · rename_i mm hmm
          injection hmerge with e; injection e with e1 _; subst e1
          -- `mergeExecuted` returns the previous value
          unfold mergeExecuted at hmm
          split at hmm
          · split at hmm
            · injection hmm with e; subst e; exact Or.inl hp
            · cases hmm
          · split at hmm
            · injection hmm with e; subst e; exact Or.inl hp
            · cases hmm
          · split at hmm
            · injection hmm with e; subst e; exact Or.inl hp
            · cases hmm
          · cases hmm
        · cases hmerge
        · cases hmerge
      · cases hmerge
    · cases h
    · cases h
  · rename_i cc
    obtain ⟨h1, h2⟩ := prepareCallResult_spec _ _ _ _ _ h
    exact ⟨hs.trans h1, Or.inr ⟨cc, h2, Or.inr (hm.2 _ rfl)⟩⟩
  · rename_i pc
    obtain ⟨h1, h2⟩ := prepareCallResult_spec _ _ _ _ _ h
    exact ⟨hs.trans h1, Or.inr ⟨pc, h2, Or.inl (hm.1 _ rfl)⟩⟩
  · injection h with h; injection h with h1 h2; subst h1; subst h2
    exact ⟨hs, Or.inl rfl⟩
  · cases h

def HandlerSame (h h' : TraceHandler) : Prop := KeeperSame h.keeper h'.keeper

theorem HandlerSame.refl (h : TraceHandler) : HandlerSame h h := KeeperSame.refl _
theorem HandlerSame.trans {a b c : TraceHandler} (h1 : HandlerSame a b) (h2 : HandlerSame b c) : HandlerSame a c :=
  KeeperSame.trans h1 h2

theorem meetCallStart_spec (h h' : TraceHandler) (m : MergerCallResult) (hm : h.meetCallStart = .ok (m, h')) :
    HandlerSame h h' ∧ (m = .notMet ∨ ∃ r, (∃ pos src, m = .met ⟨r, pos, src⟩) ∧
      (.call r ∈ h.keeper.prev.trace ∨ .call r ∈ h.keeper.cur.trace)) := by
  unfold TraceHandler.meetCallStart at hm
  simp only [bind, Res.bind] at hm
  split at hm
  · rename_i x hx
    obtain ⟨r, k⟩ := x
    injection hm with hm; injection hm with h1 h2; subst h1; subst h2
    exact tryMergeNextStateAsCall_spec _ _ _ hx
  · cases hm
  · cases hm

theorem meetCallEnd_same (h : TraceHandler) (c : CallResult) : HandlerSame h (h.meetCallEnd c) := ⟨rfl, rfl⟩

theorem updateCtxStates_same (p : CtxStatesPair) (k k' : DataKeeper) (h : updateCtxStates p k = .ok k') : KeeperSame k k' := by
  unfold updateCtxStates at h
  simp only [bind, Res.bind] at h
  split at h
  · rename_i ps hps
    split at h
    · rename_i cs hcs
      injection h with h; subst h
      constructor
      · show ps.trace = k.prev.trace
        split at hps
        · rename_i s' hs'; injection hps with e; subst e; exact setPositionAndLen_trace _ _ _ _ hs'
        · injection hps with e; subst e; rfl
        · cases hps
      · show cs.trace = k.cur.trace
        split at hcs
        · rename_i s' hs'; injection hcs with e; subst e; exact setPositionAndLen_trace _ _ _ _ hs'
        · injection hcs with e; subst e; rfl
        · cases hcs
    · cases h
    · cases h
  · cases h
  · cases h

theorem liftKeeperF_ok {α} {r : Res KeeperErr α} {a : α} (h : liftKeeperF r = .ok a) : r = .ok a := by
  cases r <;> simp [liftKeeperF, Res.mapErr] at h ⊢
  exact h

theorem parPrepareSliders_same (f : ParFSM) (t : SubgraphType) (k k' : DataKeeper) (h : parPrepareSliders f t k = .ok k') :
    KeeperSame k k' := by
  unfold parPrepareSliders at h
  simp only [bind, Res.bind] at h
  split at h
  · rename_i ps hps
    split at h
    · rename_i cs hcs
      injection h with h; subst h
      exact ⟨setSubtraceLen_trace _ _ _ (liftKeeperF_ok hps), setSubtraceLen_trace _ _ _ (liftKeeperF_ok hcs)⟩
    · cases h
    · cases h
  · cases h
  · cases h

theorem tryMergeNextStateAsPar_same (k k' : DataKeeper) (pp cp : ParResult) (h : tryMergeNextStateAsPar k = .ok (pp, cp, k')) :
    KeeperSame k k' := by
  unfold tryMergeNextStateAsPar at h
  have hs := nextStates_same k
  generalize nextStates k = ns at h hs
  obtain ⟨p, c, k1⟩ := ns
  simp only at h hs
  split at h <;> first
    | (injection h with h; injection h with _ h; injection h with _ h; subst h; exact hs)
    | cases h

theorem fromLeftStarted_same (pp cp : ParResult) (k k' : DataKeeper) (f : ParFSM)
    (h : ParFSM.fromLeftStarted pp cp k = .ok (f, k')) : KeeperSame k k' := by
  unfold ParFSM.fromLeftStarted at h
  simp only [bind, Res.bind] at h
  split at h
  · split at h
    · split at h
      · split at h
        · split at h
          · rename_i k2 hk2
            have h' : (Res.ok (_, k2) : TR (ParFSM × DataKeeper)) = Res.ok (f, k') := h
            injection h' with h'; injection h' with _ h'; subst h'
            have := parPrepareSliders_same _ _ _ _ hk2
            exact this
          all_goals cases h
        all_goals cases h
      all_goals cases h
    all_goals cases h
  all_goals cases h

theorem meetParStart_same (h h' : TraceHandler) (hm : h.meetParStart = .ok h') : HandlerSame h h' := by
  unfold TraceHandler.meetParStart at hm
  simp only [bind, Res.bind] at hm
  split at hm
  · rename_i x hx
    obtain ⟨pp, cp, k⟩ := x
    split at hm
    · rename_i y hy
      obtain ⟨f, k2⟩ := y
      injection hm with hm; subst hm
      exact (tryMergeNextStateAsPar_same _ _ _ _ hx).trans (fromLeftStarted_same _ _ _ _ _ hy)
    · cases hm
    · cases hm
  · cases hm
  · cases hm

theorem leftCompleted_same (f f' : ParFSM) (k k' : DataKeeper) (h : f.leftCompleted k = .ok (f', k')) : KeeperSame k k' := by
  unfold ParFSM.leftCompleted at h
  simp only [bind, Res.bind] at h
  split at h
  · rename_i k1 hk1
    have h1 := updateCtxStates_same _ _ _ hk1
    split at h
    · rename_i k2 hk2
      injection h with h; injection h with _ h; subst h
      exact h1.trans (parPrepareSliders_same _ _ _ _ hk2)
    · split at h
      · rename_i ps hps
        injection h with h; injection h with _ h; subst h
        exact h1.trans ⟨setSubtraceLen_trace _ _ _ hps, rfl⟩
      · injection h with h; injection h with _ h; subst h; exact h1
      · cases h
    · cases h
  · cases h
  · cases h

theorem rightCompleted_same (f : ParFSM) (k k' : DataKeeper) (h : f.rightCompleted k = .ok k') : KeeperSame k k' := by
  unfold ParFSM.rightCompleted at h
  simp only [bind, Res.bind] at h
  have := updateCtxStates_same _ _ _ h
  exact this

theorem meetParSubgraphEnd_same (h h' : TraceHandler) (t : SubgraphType) (hm : h.meetParSubgraphEnd t = .ok h') :
    HandlerSame h h' := by
  unfold TraceHandler.meetParSubgraphEnd at hm
  split at hm
  · cases hm
  · rename_i f rest _
    cases t with
    | left =>
      simp only [bind, Res.bind] at hm
      split at hm
      · rename_i x hx
        obtain ⟨f', k⟩ := x
        injection hm with hm; subst hm
        exact leftCompleted_same _ _ _ _ hx
      · cases hm
      · cases hm
    | right =>
      simp only [bind, Res.bind] at hm
      split at hm
      · rename_i k hk
        injection hm with hm; subst hm
        exact rightCompleted_same _ _ _ hk
      · cases hm
      · cases hm

end AquaProps.C16
