import Aqua.Air.Parser
import AquaProps.Lemmas.Validator
import AquaProps.Lemmas.LexNoPanic
/-!
# C23 — the parser is total and accepts only well-scoped scripts

Model: `Aqua.Air.parse` (lexer `Aqua.Air.Lexer`, lens parser `Aqua.Air.LambdaParser`, grammar
`Aqua.Air.Parser`, validator `Aqua.Air.Validator`) — replicas of `air-parser` / `air-lambda-parser`.

The validator sees one *event* per reduced instruction (`SInstr.events`: children before parents,
left to right) and compares **instruction spans**: a use in an instruction with span `s` is
"defined" if a defining instruction of that name has a span `d < s` (`Span`'s order: the smaller
end is smaller) or a fold with that iterator has a span `f < s`.  Three things keep the property
from holding in full on the unchanged code; each is replayed on the real parser by the harness:

1. operand positions the validator never visits (`fail` operand, peer and source of `canon`, value of
   `ap` into a map, lenses of `%last_error%` / `:error:`);
2. `MultiMap::iter()` yields one `(key, first value)` pair per key, so `check_undefined_variables` /
   `check_undefined_iterables` check only the FIRST unresolved use of every name and the first
   `next` of every iterator;
3. an iterator counts as defined for everything that starts after its fold starts, not only inside it.
-/
namespace AquaProps.C23
open Aqua Aqua.Air Aqua.Air.VariableValidator

/-- a definition of `n` in an instruction that starts before the using instruction (span `sp`) -/
def DefinedBefore (es : List Event) (n : String) (sp : Span) : Prop :=
  ∃ d, (n, d) ∈ varDefsOf es ∧ d.lt sp = true

/-- a fold with iterator `n` that starts before the using instruction -/
def IteratorStartedBefore (es : List Event) (n : String) (sp : Span) : Prop :=
  ∃ f, (n, f) ∈ iterDefsOf es ∧ f.lt sp = true

/-- a fold with iterator `n` whose span contains the span `sp` -/
def InsideFoldOf (es : List Event) (n : String) (sp : Span) : Prop :=
  ∃ f, (n, f) ∈ iterDefsOf es ∧ f.containsSpan sp = true

-- ------------------------------------------------------------------------------------------------
-- well-scopedness, as far as the validator establishes it

theorem finalize_nil_parts {v : VariableValidator} (h : v.finalize = []) :
    v.checkUndefinedVariables = [] ∧ v.checkUndefinedIterables = [] := by
  unfold finalize at h
  simp only [List.append_eq_nil_iff] at h
  exact ⟨h.1.1.1.1.1.1, h.1.1.1.1.1.2⟩

theorem checked_variable {v : VariableValidator} (h : v.checkUndefinedVariables = []) {k : String} {sp : Span}
    (hk : (k, sp) ∈ v.unresolvedVariables.firstPerKey) : v.containsVariable k sp = true := by
  unfold checkUndefinedVariables at h
  rw [List.filterMap_eq_nil_iff] at h
  have := h (k, sp) hk
  by_cases hc : v.containsVariable k sp
  · exact hc
  · simp [hc] at this

theorem checked_iterable {v : VariableValidator} (h : v.checkUndefinedIterables = []) {k : String} {sp : Span}
    (hk : (k, sp) ∈ v.unresolvedIterables.firstPerKey) : (v.findClosestFoldSpan k sp).isSome = true := by
  unfold checkUndefinedIterables at h
  rw [List.filterMap_eq_nil_iff] at h
  have := h (k, sp) hk
  cases hc : v.findClosestFoldSpan k sp with
  | some _ => rfl
  | none => simp [hc] at this

/-- **Well-scopedness at the visited operand positions** (call triplet, call arguments,
match/mismatch operands, `ap` argument, key of `ap` into a map, fold iterables, and the scalars
their lenses index with).  If the validator reports nothing, then every such use, in an instruction
`e`, of a name `n`
* has a definition of `n` (call output, `ap` result, map of `ap`, `canon` result, `new`) in an
  instruction that starts earlier, or a fold with iterator `n` that starts earlier — or
* some instruction reduced before `e` also uses `n` at a visited position (only the first unresolved
  use of a name is checked: `MultiMap::iter`).
In particular the first reduced use of every name is well-scoped in this sense. -/
theorem C23_well_scoped_partial (ast : SInstr) (h : validate ast = [])
    (pre post : List Event) (e : Event) (hsplit : ast.events = pre ++ e :: post)
    (n : String) (hn : n ∈ e.visitedUses) :
    DefinedBefore ast.events n e.span ∨ IteratorStartedBefore ast.events n e.span ∨
      ∃ e' ∈ pre, n ∈ e'.visitedUses := by
  by_cases hearlier : ∃ e' ∈ pre, n ∈ e'.visitedUses
  · exact Or.inr (Or.inr hearlier)
  -- states: after `pre`, after `e`, at the end
  have hrun : run ast.events = runFrom (step (runFrom {} pre) e) post := by
    rw [run_eq, hsplit, runFrom_append]; rfl
  generalize hv0 : runFrom {} pre = v0 at hrun
  generalize hv2 : run ast.events = v2 at hrun
  have hfin : v2.finalize = [] := by rw [← hv2]; exact h
  -- definitions known to a state are definitions of the script
  have defs_sub : ∀ (w : VariableValidator) (es' rest : List Event), w = runFrom {} es' → ast.events = es' ++ rest →
      ∀ m sp', w.containsVariable m sp' = true →
        DefinedBefore ast.events m sp' ∨ IteratorStartedBefore ast.events m sp' := by
    intro w es' rest hw hes m sp' hc
    rcases containsVariable_sound hc with ⟨d, hd, hlt⟩ | ⟨f, hf, hlt⟩
    · left
      rw [hw] at hd
      rcases defs_runFrom {} es' _ hd with hd | hd
      · simp [core] at hd
      · exact ⟨d, by rw [hes, varDefsOf_append]; exact List.mem_append_left _ hd, hlt⟩
    · right
      rw [hw, iters_runFrom] at hf
      simp only [core, List.nil_append] at hf
      exact ⟨f, by rw [hes, iterDefsOf_append]; exact List.mem_append_left _ hf, hlt⟩
  by_cases hc0 : v0.containsVariable n e.span = true
  · -- resolved when met
    rcases defs_sub v0 pre (e :: post) hv0.symm hsplit n e.span hc0 with h | h
    · exact Or.inl h
    · exact Or.inr (Or.inl h)
  · -- pushed to `unresolved_variables`; it is the first entry of its name, so `finalize` checks it
    have hstep := core_step v0 e
    obtain ⟨suf0, hsuf0, hkeys0⟩ := unres_runFrom {} pre
    rw [hv0] at hsuf0
    simp only [core, List.nil_append] at hsuf0
    obtain ⟨suf2, hsuf2, _⟩ := unres_runFrom (v0.step e) post
    rw [← hrun, hstep] at hsuf2
    -- the entries added by `e`
    generalize hadded : ((e.visitedUses.filter fun m => !v0.containsVariable m e.span).map fun m => (m, e.span)) = added
      at hsuf2
    have hmem : (n, e.span) ∈ added := by
      rw [← hadded]; apply List.mem_map.mpr
      exact ⟨n, List.mem_filter.mpr ⟨hn, by simpa using hc0⟩, rfl⟩
    obtain ⟨a, x, b, hab, hx, ha⟩ := exists_first (fun p : String × Span => p.1 = n) added ⟨(n, e.span), hmem, rfl⟩
    have hxspan : x = (n, e.span) := by
      have hxin : x ∈ added := by rw [hab]; simp
      rw [← hadded] at hxin
      obtain ⟨m, _, hm⟩ := List.mem_map.mp hxin
      rw [← hm] at hx ⊢
      simp at hx; rw [hx]
    have hfirst : (n, e.span) ∈ v2.unresolvedVariables.firstPerKey := by
      have hshape : v2.unresolvedVariables = (suf0 ++ a) ++ (n, e.span) :: (b ++ suf2) := by
        have : v2.unresolvedVariables = v2.core.unres := rfl
        rw [this, hsuf2]
        show v0.unresolvedVariables ++ added ++ suf2 = _
        rw [hsuf0, hab, hxspan]; simp
      rw [hshape]
      apply SpanMap.mem_firstPerKey
      intro p hp
      rcases List.mem_append.mp hp with hp | hp
      · intro hpk
        obtain ⟨e', he', h1, _⟩ := hkeys0 p hp
        exact hearlier ⟨e', he', by rw [← hpk]; exact h1⟩
      · exact ha p hp
    have hc2 := checked_variable (finalize_nil_parts hfin).1 hfirst
    rcases defs_sub v2 ast.events [] (by rw [← hv2, run_eq]) (by simp) n e.span hc2 with h | h
    · exact Or.inl h
    · exact Or.inr (Or.inl h)

/-- **`next` inside its fold, as far as the validator establishes it**: if the validator reports
nothing, every `next n` either lies inside the span of a fold with iterator `n`, or an earlier
reduced `next n` exists (only the first `next` of a name is checked: `MultiMap::iter`). -/
theorem C23_next_in_fold_partial (ast : SInstr) (h : validate ast = [])
    (pre post : List Event) (sp : Span) (n : String) (hsplit : ast.events = pre ++ Event.next sp n :: post) :
    InsideFoldOf ast.events n sp ∨ ∃ sp', Event.next sp' n ∈ pre := by
  by_cases hearlier : ∃ sp', Event.next sp' n ∈ pre
  · exact Or.inr hearlier
  left
  have hfin : (run ast.events).finalize = [] := h
  have hit : (run ast.events).unresolvedIterables = nextsOf ast.events := by
    have := unresIt_runFrom {} ast.events
    simpa [core, run_eq] using this
  have hfirst : (n, sp) ∈ (run ast.events).unresolvedIterables.firstPerKey := by
    rw [hit, hsplit, nextsOf_append]
    have : nextsOf (Event.next sp n :: post) = (n, sp) :: nextsOf post := by simp [nextsOf]
    rw [this]
    apply SpanMap.mem_firstPerKey
    intro p hp hpk
    simp only [nextsOf, List.mem_filterMap] at hp
    obtain ⟨e', he', hpe⟩ := hp
    cases e' <;> simp at hpe
    rename_i sp' i
    subst hpe
    simp at hpk
    exact hearlier ⟨sp', by rw [← hpk]; exact he'⟩
  obtain ⟨f, hf, hcont⟩ := findClosestFoldSpan_sound (checked_iterable (finalize_nil_parts hfin).2 hfirst)
  have := iters_runFrom {} ast.events
  rw [← run_eq] at this
  rw [this] at hf
  simp only [core, List.nil_append] at hf
  exact ⟨f, hf, hcont⟩

-- a non-trivial instance: the `next i` of `witnessNextInside` below is the first `next i` and lies inside its fold
example : validate (.fold ⟨0, 30⟩ (.scalar .emptyArray) "i" (.seq ⟨11, 29⟩ (.null ⟨16, 22⟩) (.next ⟨23, 28⟩ "i"))) = [] := by decide

/-- consequence for scripts that use every name in at most one instruction before: the first use of
each name is always checked -/
theorem C23_first_use_well_scoped (ast : SInstr) (h : validate ast = [])
    (pre post : List Event) (e : Event) (hsplit : ast.events = pre ++ e :: post)
    (n : String) (hn : n ∈ e.visitedUses) (hfirst : ∀ e' ∈ pre, n ∉ e'.visitedUses) :
    DefinedBefore ast.events n e.span ∨ IteratorStartedBefore ast.events n e.span := by
  rcases C23_well_scoped_partial ast h pre post e hsplit n hn with h | h | ⟨e', he', hn'⟩
  · exact Or.inl h
  · exact Or.inr h
  · exact absurd hn' (hfirst e' he')

-- a non-trivial instance of the hypotheses: `(seq (call "p" ("s" "f") [] x) (call "p" ("s" "f") [x.$.[x]]))`
def exampleScript : SInstr :=
  .seq ⟨0, 62⟩ (.call ⟨5, 30⟩ (.literal "p") (.literal "s") (.literal "f") [] (.scalar "x"))
    (.call ⟨31, 61⟩ (.literal "p") (.literal "s") (.literal "f") [.scalarWL "x" (.path [.fieldByScalar "x"])] .none)
example : validate exampleScript = [] := by decide
example : exampleScript.events = [exampleScript.events[0]] ++ exampleScript.events[1] :: [exampleScript.events[2]] := by decide
example : "x" ∈ (exampleScript.events[1]).visitedUses := by decide
example : (match parse "(seq (call \"p\" (\"s\" \"f\") [] x) (call \"p\" (\"s\" \"f\") [x.$.[x]]))" with
    | .ok a => decide (a = exampleScript) | _ => false) = true := by decide

-- ------------------------------------------------------------------------------------------------
-- the full property and why it does not hold

/-- every variable use in EVERY operand position has a definition in an instruction that starts
earlier or lies inside a fold with that iterator; every `next` lies inside a fold of its iterator -/
def WellScoped (ast : SInstr) : Prop :=
  (∀ e ∈ ast.events, ∀ n ∈ e.allUses, DefinedBefore ast.events n e.span ∨ InsideFoldOf ast.events n e.span) ∧
  (∀ sp n, Event.next sp n ∈ ast.events → InsideFoldOf ast.events n sp)

/-- C23, scoping part, at full strength.  NOT provable: see `C23_full_false`.  Missing relative to
`C23_well_scoped_partial` / `C23_next_in_fold_partial`: the unvisited operand positions, all but the
first unresolved use / `next` of a name, and containment (instead of order) for iterators. -/
def C23_full : Prop := ∀ ast : SInstr, validate ast = [] → WellScoped ast

/-- `(fail undefined)` -/
def witnessFail : SInstr := .fail ⟨0, 16⟩ (.scalar "undefined")
/-- `(canon undefined $s #c)` -/
def witnessCanonPeer : SInstr := .canon ⟨0, 23⟩ (.scalar "undefined") "$s" 17 "#c"
/-- `(ap ("k" undefined) %m)` -/
def witnessApMapValue : SInstr := .apMap ⟨0, 23⟩ (.literal "k") (.scalar "undefined") "%m" 20
/-- `(call "p" ("s" "f") [%last_error%.$.[undefined]])` -/
def witnessErrorLens : SInstr :=
  .call ⟨0, 49⟩ (.literal "p") (.literal "s") (.literal "f") [.lastError (some (.path [.fieldByScalar "undefined"]))] .none
/-- `(seq (call "p" ("s" "f") [] y) (seq (fold y i (seq (null) (next i))) (call i ("s" "f") [])))`:
the iterator is used after its fold -/
def witnessIteratorAfterFold : SInstr :=
  .seq ⟨0, 92⟩ (.call ⟨5, 30⟩ (.literal "p") (.literal "s") (.literal "f") [] (.scalar "y"))
    (.seq ⟨31, 91⟩
      (.fold ⟨36, 68⟩ (.scalar (.scalar "y")) "i" (.seq ⟨46, 67⟩ (.null ⟨51, 57⟩) (.next ⟨58, 66⟩ "i")))
      (.call ⟨69, 90⟩ (.scalar "i") (.literal "s") (.literal "f") [] .none))
/-- `(seq (call "p" ("s" "f") [] y) (match x 1 (fold y x (seq (call x ("s" "f") []) (next x)))))`:
`x` is undefined at the `match`, but the use inside the fold was pushed first -/
def witnessFirstUseOnly : SInstr :=
  .seq ⟨0, 91⟩ (.call ⟨5, 30⟩ (.literal "p") (.literal "s") (.literal "f") [] (.scalar "y"))
    (.match_ ⟨31, 90⟩ (.scalar "x") (.number 1)
      (.fold ⟨42, 89⟩ (.scalar (.scalar "y")) "x"
        (.seq ⟨52, 88⟩ (.call ⟨57, 78⟩ (.scalar "x") (.literal "s") (.literal "f") [] .none) (.next ⟨79, 87⟩ "x"))))
/-- `(seq (call "p" ("s" "f") [] y) (seq (fold y i (seq (null) (next i))) (next i)))`: `next` outside its fold -/
def witnessNextOutside : SInstr :=
  .seq ⟨0, 79⟩ (.call ⟨5, 30⟩ (.literal "p") (.literal "s") (.literal "f") [] (.scalar "y"))
    (.seq ⟨31, 78⟩
      (.fold ⟨36, 68⟩ (.scalar (.scalar "y")) "i" (.seq ⟨46, 67⟩ (.null ⟨51, 57⟩) (.next ⟨58, 66⟩ "i")))
      (.next ⟨69, 77⟩ "i"))

/-- the witnesses are what the model parser returns for the texts (the harness replays the same texts
on the real parser: `harness/src/props/c23gen.rs::witnesses`) -/
def parsesTo (text : String) (w : SInstr) : Bool := match parse text with | .ok a => decide (a = w) | _ => false
example : parsesTo "(fail undefined)" witnessFail = true := by decide
example : parsesTo "(canon undefined $s #c)" witnessCanonPeer = true := by decide
example : parsesTo "(ap (\"k\" undefined) %m)" witnessApMapValue = true := by decide
example : parsesTo "(call \"p\" (\"s\" \"f\") [%last_error%.$.[undefined]])" witnessErrorLens = true := by decide
example : parsesTo "(seq (call \"p\" (\"s\" \"f\") [] y) (seq (fold y i (seq (null) (next i))) (call i (\"s\" \"f\") [])))" witnessIteratorAfterFold = true := by decide
example : parsesTo "(seq (call \"p\" (\"s\" \"f\") [] y) (match x 1 (fold y x (seq (call x (\"s\" \"f\") []) (next x)))))" witnessFirstUseOnly = true := by decide
example : parsesTo "(seq (call \"p\" (\"s\" \"f\") [] y) (seq (fold y i (seq (null) (next i))) (next i)))" witnessNextOutside = true := by decide

/-- a tree is not well-scoped because of the use of `n` in its event `e` (all hypotheses are decidable) -/
theorem not_wellScoped_of_use (w : SInstr) (e : Event) (n : String) (he : e ∈ w.events) (hn : n ∈ e.allUses)
    (hdef : (varDefsOf w.events).all (fun p => !(p.1 == n && p.2.lt e.span)) = true)
    (hit : (iterDefsOf w.events).all (fun p => !(p.1 == n && p.2.containsSpan e.span)) = true) : ¬ WellScoped w := by
  intro hw
  rcases hw.1 e he n hn with ⟨d, hd, hlt⟩ | ⟨f, hf, hc⟩
  · have := List.all_eq_true.mp hdef _ hd
    simp [hlt] at this
  · have := List.all_eq_true.mp hit _ hf
    simp [hc] at this

theorem gap_unvisited_fail_operand : validate witnessFail = [] ∧ ¬ WellScoped witnessFail :=
  ⟨by decide, not_wellScoped_of_use _ (.fail ⟨0, 16⟩ (.scalar "undefined")) "undefined" (by decide) (by decide)
    (by decide) (by decide)⟩

theorem gap_unvisited_canon_peer : validate witnessCanonPeer = [] ∧ ¬ WellScoped witnessCanonPeer :=
  ⟨by decide, not_wellScoped_of_use _ (.canon ⟨0, 23⟩ (.scalar "undefined") "$s" "#c") "undefined" (by decide) (by decide)
    (by decide) (by decide)⟩

theorem gap_unvisited_apmap_value : validate witnessApMapValue = [] ∧ ¬ WellScoped witnessApMapValue :=
  ⟨by decide, not_wellScoped_of_use _ (.apMap ⟨0, 23⟩ (.literal "k") (.scalar "undefined") "%m") "undefined" (by decide) (by decide)
    (by decide) (by decide)⟩

theorem gap_unvisited_error_lens : validate witnessErrorLens = [] ∧ ¬ WellScoped witnessErrorLens :=
  ⟨by decide, not_wellScoped_of_use _
    (.call ⟨0, 49⟩ (.literal "p") (.literal "s") (.literal "f") [.lastError (some (.path [.fieldByScalar "undefined"]))] .none)
    "undefined" (by decide) (by decide) (by decide) (by decide)⟩

theorem gap_iterator_after_fold : validate witnessIteratorAfterFold = [] ∧ ¬ WellScoped witnessIteratorAfterFold :=
  ⟨by decide, not_wellScoped_of_use _ (.call ⟨69, 90⟩ (.scalar "i") (.literal "s") (.literal "f") [] .none) "i" (by decide) (by decide)
    (by decide) (by decide)⟩

theorem gap_first_use_only : validate witnessFirstUseOnly = [] ∧ ¬ WellScoped witnessFirstUseOnly :=
  ⟨by decide, not_wellScoped_of_use _ (.match_ ⟨31, 90⟩ (.scalar "x") (.number 1)) "x" (by decide) (by decide)
    (by decide) (by decide)⟩

theorem gap_next_outside_fold : validate witnessNextOutside = [] ∧ ¬ WellScoped witnessNextOutside := by
  refine ⟨by decide, fun hw => ?_⟩
  obtain ⟨f, hf, hc⟩ := hw.2 ⟨69, 77⟩ "i" (by decide)
  have hall : (iterDefsOf witnessNextOutside.events).all (fun p => !(p.1 == "i" && p.2.containsSpan ⟨69, 77⟩)) = true := by decide
  have := List.all_eq_true.mp hall _ hf
  simp [hc] at this

/-- **The full scoping property does not hold for the validator** (hence not for the parser:
every witness is a text the real `air_parser::parse` accepts). -/
theorem C23_full_false : ¬ C23_full := fun h => gap_unvisited_fail_operand.2 (h _ gap_unvisited_fail_operand.1)

-- ------------------------------------------------------------------------------------------------
-- no error nodes, totality

theorem noErrorNode_of_errorNodes (i : SInstr) (h : i.errorNodes = 0) : i.noErrorNode = true := by
  induction i with
  | seq _ l r ihl ihr | par _ l r ihl ihr | xor _ l r ihl ihr | foldLast _ _ _ l r ihl ihr =>
    simp only [SInstr.errorNodes] at h
    simp [SInstr.noErrorNode, ihl (by omega), ihr (by omega)]
  | match_ _ _ _ i ih | mismatch _ _ _ i ih | new _ _ i ih | fold _ _ _ i ih =>
    simp only [SInstr.errorNodes] at h
    simp [SInstr.noErrorNode, ih h]
  | error => simp [SInstr.errorNodes] at h
  | _ => simp [SInstr.noErrorNode]

/-- **The end of `air_parser::parse`**, for whatever syntax tree the LALRPOP run returns: the
recovery action `! => { errors.push(<>); Instruction::Error }` is the only constructor of
`Instruction::Error` (checked on the grammar source by `tools/gen_tables.py`), `errors` also
receives the validator's errors, and `Ok(r)` is returned only if `errors.is_empty()`.  Hence an
accepted tree has no error node, the validator found nothing, and the tree has a span-free form. -/
theorem C23_no_error_nodes (r ast : SInstr) (h : finishParse r = .ok ast) :
    ast = r ∧ ast.noErrorNode = true ∧ validate ast = [] ∧ ast.erase.isSome = true := by
  unfold finishParse at h
  simp only at h
  split at h
  · rename_i hc
    cases h
    simp only [Bool.and_eq_true, beq_iff_eq, List.isEmpty_iff] at hc
    have hn := noErrorNode_of_errorNodes r hc.1
    exact ⟨rfl, hn, hc.2, SInstr.erase_isSome_of_noErrorNode r hn⟩
  · split at h <;> cases h

example : (finishParse exampleScript).isOk = true := by decide
-- a tree with a recovered error is never returned, whatever the validator says
example : (finishParse (.seq ⟨0, 10⟩ .error (.null ⟨4, 9⟩))).isOk = false := by decide

/-- the same for the model's `parse` of a text -/
theorem C23_accepted_text (text : String) (ast : SInstr) (h : parse text = .ok ast) :
    ast.noErrorNode = true ∧ validate ast = [] := by
  unfold parse parseChars at h
  simp only at h
  split at h
  · split at h
    · exact ⟨(C23_no_error_nodes _ _ h).2.1, (C23_no_error_nodes _ _ h).2.2.1⟩
    · split at h <;> cases h
  · split at h <;> cases h
  · split at h <;> cases h

/-- `parse` is a total Lean function into `ok ast | error e | panic site` (every loop of the lexers and
of the recogniser runs on fuel bounded by the text length), and an `ok` result is a complete tree the
validator accepts — true by construction.  That the `panic` case never happens is `C23_totality_full`. -/
theorem C23_parse_total (text : String) :
    (∃ ast, parse text = .ok ast ∧ ast.noErrorNode = true ∧ validate ast = []) ∨
    (∃ e, parse text = .error e) ∨ (∃ site, parse text = .panic site) := by
  cases h : parse text with
  | ok ast => exact Or.inl ⟨ast, rfl, C23_accepted_text text ast h⟩
  | error e => exact Or.inr (Or.inl ⟨e, rfl⟩)
  | panic s => exact Or.inr (Or.inr ⟨s, rfl⟩)

/-- **Totality, at full strength: no text makes the parser model panic.**  The Rust code indexes
`str`s by byte ranges at three places — `tokenize_until` of the lens lexer (`&input[start_offset..]`,
`&input[start_offset..end_pos]`), `parse_error` (`&input[token_wo_lens_len..]`) and
`try_to_variable_and_lambda` (`[lambda_start_offset..]`, `[0..lambda_start_offset]`); the model keeps
each of them as the checked `Lex.sliceBytes` (`none` = the panic of `str` indexing) and this theorem
shows that every one is taken between two character boundaries, for every text.  The number
conversions return `Err`; the position arithmetic is modelled over `Nat` (its three subtractions —
`pos_in_string_to_parse() - 1`, `len() - 1`, `pos - start_pos` — sit behind guards `offset ≥ 1` /
non-empty token; that is by inspection, not part of this theorem).  Consequently the unmodelled outcome "syntax error, then possibly a lexer panic
while LALRPOP recovers" (`ParseError.syntaxThenPanic`) does not arise either.
Before the repair 5981066 of `tokenize_until` (`[start_offset..end_pos + 1]`) this was false:
`(call "p" ("s" "f") [x.$.é])` panicked, in the code and in the model.
No other panic path remains in the model; outside the model are LALRPOP's automaton/recovery, the report
rendering (codespan) and stack exhaustion on very deep nesting (property C01). -/
theorem C23_totality_full (text : String) :
    (parse text).isPanic = false ∧ ∀ s, parse text ≠ .error (.syntaxThenPanic s) := by
  obtain ⟨h1, h2⟩ := parseChars_no_panic text.toList
  refine ⟨?_, h2⟩
  unfold parse
  cases hp : parseChars text.toList with
  | panic s => exact absurd hp (h1 s)
  | ok a => rfl
  | error e => rfl

/-- regression of the repaired defect: a non-ASCII alphanumeric is an ordinary part of a lens field name -/
example : parsesTo "(seq (call \"p\" (\"s\" \"f\") [] x) (call \"p\" (\"s\" \"f\") [x.$.é.aé٣b.[0]]))"
    (.seq ⟨0, 72⟩ (.call ⟨5, 30⟩ (.literal "p") (.literal "s") (.literal "f") [] (.scalar "x"))
      (.call ⟨31, 71⟩ (.literal "p") (.literal "s") (.literal "f")
        [.scalarWL "x" (.path [.fieldByName "é", .fieldByName "aé٣b", .arrayAccess 0])] .none)) = true := by decide
-- the former panic witness itself is now rejected by the validator only (`x` is undefined)
example : (match parse "(call \"p\" (\"s\" \"f\") [x.$.é])" with | .error (.validator _) => true | _ => false) = true := by decide

end AquaProps.C23
