import AquaProps.Lemmas.BeautifierTree
import AquaProps.Lemmas.OperandReader
/-!
# C28 — the beautifier faithfully renders the script structure

Model: `Aqua.Air.Beautifier` (replica of `crates/beautifier/src/{beautifier,virtual}.rs` and of the `Display`
impls it prints with). Independent reader of the output language and the script's own instruction tree:
`Aqua.Air.Unbeautify` (`unbeautify`, `skeleton`, `flat`). Operand reader: `Aqua.Air.OperandReader`.

All theorems quantify over every `Instr` (all instruction kinds, folds with and without `last`, hop-on
patterns on and off, every indent step > 0). The premises `WF` / `valueWF` / `lineOK` state what the lexer
guarantees about names and literals (no `"` inside a literal, names made of name characters, …); they are
decidable and monitored by the harness on every real AST (`wf`, `operands_not_wf`, `lines_ok` of the
driver op `beautify`).
-/
namespace AquaProps.C28
open Aqua.Air Aqua.Air.Beautifier Aqua.Air.Unbeautify Aqua.Air.OperandReader
open AquaProps.Lemmas.BeautifierText AquaProps.Lemmas.BeautifierTree AquaProps.Lemmas.OperandReader

/-! ## the source still says what the model replicates

Layout keywords, format strings, dispatch of `beautify_walker`, `Display` format strings and argument
order, re-read from /repo by `tools/gen_tables.py` on every check: a change of any of them breaks this
proof (and the model has to be revisited). -/

theorem C28_source_tables :
    Aqua.Gen.Beautifier.defaultIndentStep = 4 ∧
    Aqua.Gen.Beautifier.methodLiterals = [("fmt_indent", ["{:indent$}", ""]), ("beautify_ast", []), ("beautify_walker", ["error"]), ("beautify_call", ["{v} <- ", "{v} <- ", "call {} [{}]"]), ("beautify_simple", ["{instruction}"]), ("beautify_seq", []), ("beautify_par", ["par:", "|"]), ("beautify_xor", ["try:", "catch:"]), ("beautify_match", []), ("beautify_mismatch", []), ("beautify_fold_scalar", ["last:"]), ("beautify_fold_stream", ["last:"]), ("beautify_fold_stream_map", ["last:"]), ("beautify_new", [])] ∧
    Aqua.Gen.Beautifier.macroLiterals = [("multiline", []), ("compound", ["{}:"])] ∧
    Aqua.Gen.Beautifier.walkerDispatch = [("Call", "beautify_call"), ("Ap", "beautify_simple"), ("ApMap", "beautify_simple"), ("Canon", "beautify_simple"), ("CanonMap", "beautify_simple"), ("CanonStreamMapScalar", "beautify_simple"), ("Seq", "beautify_seq"), ("Par", "beautify_par"), ("Xor", "beautify_xor"), ("Match", "beautify_match"), ("MisMatch", "beautify_mismatch"), ("Fail", "beautify_simple"), ("FoldScalar", "beautify_fold_scalar"), ("FoldStream", "beautify_fold_stream"), ("FoldStreamMap", "beautify_fold_stream_map"), ("Never", "beautify_simple"), ("New", "beautify_new"), ("Next", "beautify_simple"), ("Null", "beautify_simple"), ("Error", "beautify_simple:error")] ∧
    Aqua.Gen.Beautifier.displayImpls = [("CallArgs", ["{}", ", "], ["0.iter"]), ("CallTriplet", ["{} ({}, {})"], ["0.peer_id", "0.service_id", "0.function_name"]), ("HopOn", ["hopon {}"], ["peer_id"]), ("Instruction", ["{call}", "{canon}", "{canon_map}", "{canon_stream_map_scalar}", "{ap}", "{ap_map}", "{seq}", "{par}", "{xor}", "{match_}", "{mismatch}", "{fail}", "{fold}", "{fold}", "{fold}", "{never}", "{next}", "{new}", "{null}", "error"], []), ("Call", ["{arg}", " ", "call {} [{}] {}"], ["args", "triplet", "output"]), ("Canon", ["canon {} {} {}"], ["peer_id", "stream", "canon_stream"]), ("CanonMap", ["canon {} {} {}"], ["peer_id", "stream_map", "canon_stream_map"]), ("CanonStreamMapScalar", ["canon {} {} {}"], ["peer_id", "stream_map", "scalar"]), ("Ap", ["ap {} {}"], ["argument", "result"]), ("ApMap", ["ap ({} {}) {}"], ["key", "value", "map"]), ("Fail", ["fail {scalar}", "fail {scalar}", "fail {ret_code} \"{error_message}\"", "fail {stream}", "fail %last_error%", "fail :error:"], []), ("FoldScalar", ["fold {} {}"], ["iterable", "iterator"]), ("FoldStream", ["fold {} {}"], ["iterable", "iterator"]), ("FoldStreamMap", ["fold {} {}"], ["iterable", "iterator"]), ("Seq", ["seq"], []), ("Par", ["par"], []), ("Null", ["null"], []), ("Xor", ["xor"], []), ("Match", ["match {} {}"], ["left_value", "right_value"]), ("MisMatch", ["mismatch {} {}"], ["left_value", "right_value"]), ("Never", ["never"], []), ("Next", ["next {}"], ["iterator"]), ("New", ["new {}"], ["argument"]), ("ApResult", ["{scalar}", "{stream}"], []), ("ImmutableValue", ["%init_peer_id%", "\"{literal}\"", "%timestamp%", "%ttl%", "{number}", "{bool}", "[]", "{variable}", "{variable}"], []), ("ResolvableToPeerIdVariable", ["%init_peer_id%", "\"{literal}\"", "{scalar}", "{scalar}", "{canon_stream}", "{canon_stream_map}"], []), ("ResolvableToStringVariable", ["\"{literal}\"", "{scalar}", "{scalar}", "{canon_stream}", "{canon_stream_map}"], []), ("CallOutputValue", ["{scalar}", "{stream}"], []), ("ApArgument", ["%init_peer_id%", "\"{str}\"", "%timestamp%", "%ttl%", "{number}", "{bool}", "[]", "{scalar}", "{scalar}", "{canon_stream}", "{canon_stream}", "{canon_stream_map}", "{canon_stream_map}"], []), ("StreamMapKeyClause", ["\"{str}\"", "{int}", "{scalar}", "{scalar}", "{canon_stream}"], []), ("Triplet", ["{} ({} {})"], ["peer_id", "service_id", "function_name"]), ("NewArgument", ["{scalar}", "{stream}", "{canon_stream}", "{stream_map}", "{canon_stream_map}"], []), ("Number", ["{number}", "{number}"], []), ("FoldScalarIterable", ["{scalar}", "{scalar}", "{canon_stream}", "{canon_stream_map}", "{canon_stream_map}", "[]"], []), ("Scalar", ["{}"], ["name"]), ("ScalarWithLambda", ["{}{}"], ["name", "lambda"]), ("Stream", ["{}"], ["name"]), ("CanonStream", ["{}"], ["name"]), ("CanonStreamWithLambda", ["{}{}"], ["name", "lambda"]), ("CanonStreamMap", ["{}"], ["name"]), ("CanonStreamMapWithLambda", ["{}{}"], ["name", "lambda"]), ("ImmutableVariable", ["{scalar}", "{canon_stream}", "{canon_stream_map}"], []), ("ImmutableVariableWithLambda", ["{scalar}", "{canon_stream}", "{canon_stream_map}"], []), ("StreamMap", ["{}"], ["name"]), ("LambdaAST", [".{functor}", ".$.{}", "."], []), ("ValueAccessor", ["[{idx}]", "{field_name}", "[{scalar_name}]", "a parser error occurred while parsing lambda expression"], []), ("Functor", ["length"], [])] ∧
    Aqua.Gen.Beautifier.displayHelpers = [("display_last_error", ["{LAST_ERROR}{lambda_ast}", "{LAST_ERROR}"]), ("display_error", ["{ERROR}{lens}", "{ERROR}"])] ∧
    Aqua.Gen.Beautifier.lexerConsts = [("INIT_PEER_ID", "%init_peer_id%"), ("LAST_ERROR", "%last_error%"), ("ERROR", ":error:"), ("TIMESTAMP", "%timestamp%"), ("TTL", "%ttl%"), ("TRUE_VALUE", "true"), ("FALSE_VALUE", "false")] ∧
    Aqua.Gen.Beautifier.canonShadows = [("InitPeerId", "false"), ("Literal", "false"), ("Scalar", "false"), ("ScalarWithLambda", "false"), ("CanonStreamMapWithLambda", "false"), ("CanonStreamWithLambda", "canon_with_lambda.name == canon_name")] :=
  ⟨rfl, rfl, rfl, rfl, rfl, rfl, rfl, rfl⟩

/-- the default configuration (`Beautifier::new`) has a positive indent step, patterns off -/
theorem C28_default_cfg : 0 < ({} : Cfg).indentStep ∧ ({} : Cfg).tryHopon = false := by decide

/-! ## structure -/

/-- **Round trip through the independent reader** (full: every instruction kind, `last` sections, hop-on
patterns on or off, any positive step): reading the beautified lines back — one instruction per line, children =
the following deeper lines, `par:`/`|`, `try:`/`catch:`, `head:`, `last:` — yields exactly the script's
instruction tree with sequences flattened: every instruction once, in order, compound instructions introduced by
their keyword line, `call` operands token by token. -/
theorem C28_roundtrip (cfg : Cfg) (hstep : 0 < cfg.indentStep) (ast : Instr) (hwf : WF ast = true) :
    unbeautify (beautifyAst cfg ast) = some (skeleton cfg.tryHopon ast) := by
  have h := (reads_walker cfg hstep ast 0 hwf).2 [] 1 [] [] (by simp [readItems, readStep])
    ((beautifyWalker cfg ast 0).length + 1) (by omega)
  simp only [List.append_nil] at h
  simp [unbeautify, beautifyAst, h]

/-- the same from the output *text* (what `Beautifier` writes: indent spaces, text, newline per line) -/
theorem C28_text_roundtrip (cfg : Cfg) (hstep : 0 < cfg.indentStep) (ast : Instr) (hwf : WF ast = true)
    (hlines : ∀ l ∈ beautifyAst cfg ast, lineOK l = true) :
    unbeautifyText (render (beautifyAst cfg ast)) = some (skeleton cfg.tryHopon ast) := by
  unfold unbeautifyText
  rw [linesOf_render _ hlines]
  exact C28_roundtrip cfg hstep ast hwf

/-- **Indentation is nesting depth; order is script order** (no premise): dropping the separator lines
(`|`, `catch:`, `last:`), the output is exactly the list of the script's non-`seq` instructions in pre-order
(`flat`: depth counts enclosing `par`/`xor`/`match`/`mismatch`/`fold`/`new`, not `seq`), each on its own line
indented by `depth × step`, the line being the instruction's own text (`ownText`). -/
theorem C28_indent_is_depth (cfg : Cfg) (ast : Instr) :
    (beautifyAst cfg ast).filter (fun l => !isSep l.text) =
      (flat cfg.tryHopon ast 0).map fun (x : Nat × Instr) => ⟨x.1 * cfg.indentStep, ownText cfg.tryHopon x.2⟩ := by
  have := filter_walker cfg ast 0
  simp only [Nat.zero_mul] at this
  exact this

/-- every instruction is listed exactly once: as many non-separator lines as instructions -/
theorem C28_lines_count (cfg : Cfg) (ast : Instr) :
    ((beautifyAst cfg ast).filter (fun l => !isSep l.text)).length = (flat cfg.tryHopon ast 0).length := by
  rw [C28_indent_is_depth, List.length_map]

/-- compound instructions are introduced by their keyword, operands printed by `Display` -/
theorem C28_head_format (hop : Bool) :
    (∀ l r, ownText hop (.par l r) = "par:".toList) ∧
    (∀ l r, ownText hop (.xor l r) = "try:".toList) ∧
    (∀ a b i, ownText hop (.match_ a b i) = "match ".toList ++ valueText a ++ ' ' :: valueText b ++ [':']) ∧
    (∀ a b i, ownText hop (.mismatch a b i) = "mismatch ".toList ++ valueText a ++ ' ' :: valueText b ++ [':']) ∧
    (∀ it i b l, ownText hop (.foldScalar it i b l) = "fold ".toList ++ valueText it ++ ' ' :: i.toList ++ [':']) ∧
    (∀ s sp i b l sl, ownText hop (.foldStream s sp i b l sl) = "fold ".toList ++ s.toList ++ ' ' :: i.toList ++ [':']) ∧
    (∀ m mp i b l sl, ownText hop (.foldMap m mp i b l sl) = "fold ".toList ++ m.toList ++ ' ' :: i.toList ++ [':']) ∧
    (∀ a b sl sr, hopOnPeer (.new a b sl sr) = none → ownText hop (.new a b sl sr) = "new ".toList ++ a.name.toList ++ [':']) :=
  ⟨fun _ _ => rfl, fun _ _ => rfl, fun _ _ _ => rfl, fun _ _ _ => rfl, fun _ _ _ _ => rfl, fun _ _ _ _ _ _ => rfl,
   fun _ _ _ _ _ _ => rfl, fun a b sl sr h => by
     unfold ownText
     cases hop <;> simp only [h, if_true, if_false, Bool.false_eq_true] <;> rfl⟩

/-! ## operands -/

/-- **Operands are printed as in the script**: reading the printed text of an operand back with the token rules
of the AIR lexer gives the operand itself — for every operand kind (constants, literals, integers, floats,
`%last_error%` / `:error:` with lens, scalars / canon streams / canon stream maps with or without lens, every
accessor kind). -/
theorem C28_operands (v : Value) (hwf : valueWF v = true) : parseValue (valueText v) = some v :=
  parseValue_valueText v hwf

/-- hence no two different operands are printed alike -/
theorem C28_operands_injective (v w : Value) (hv : valueWF v = true) (hw : valueWF w = true)
    (h : valueText v = valueText w) : v = w := by
  have h1 := C28_operands v hv
  rw [h, C28_operands w hw] at h1
  exact (Option.some.inj h1).symm

/-- `C28_full`: the statements above without the lexer premises do not hold for the model, and not for the
code either — see the known findings (a float literal with integral value prints like an integer, so
`valueText (.float "1") = valueText (.number 1)`; a literal with a line break spans two lines).
What is not proved: `f64::fmt` (the decimal text of a float is an input of the model). -/
def C28_full : Prop :=
  ∀ (cfg : Cfg) (ast : Instr), 0 < cfg.indentStep →
    unbeautifyText (render (beautifyAst cfg ast)) = some (skeleton cfg.tryHopon ast)

/-! ## the hypotheses are satisfiable (concrete, non-trivial inputs) -/

/-- a script with every layout feature: seq chain, par, xor, match, fold with `last`, hop-on idiom, call with output -/
def exAst : Instr :=
  .seq (.call (.literal "peer 1") (.literal "svc, x") (.scalarWL "f" (.path [.fieldByName "a", .arrayAccess 0])) [.number (-5), .float "1.5", .emptyArray, .lastError (some .functorLength)] (.stream "$out" 7))
    (.seq (.par (.xor (.ap (.boolean true) (.scalar "x")) (.fail .lastError)) (.match_ (.scalar "x") (.literal "y") .null))
      (.seq (.foldScalar (.canon "#c") "i" (.seq (.canon .initPeerId "$s" 3 "#c2") (.next "i")) (some .never))
        (.new (.stream "$e") (.new (.canon "#e") (.canon (.literal "relay") "$e" 9 "#e") 1 2) 0 3)))

example : WF exAst = true := by decide
example : ∀ v ∈ operands exAst, valueWF v = true := by decide
example : unbeautify (beautifyAst {} exAst) = some (skeleton false exAst) := C28_roundtrip {} (by decide) exAst (by decide)
example : unbeautify (beautifyAst { indentStep := 2, tryHopon := true } exAst) = some (skeleton true exAst) :=
  C28_roundtrip _ (by decide) exAst (by decide)
example : ∀ l ∈ beautifyAst {} exAst, lineOK l = true := by decide
example : (beautifyAst {} exAst).length = 17 ∧ (flat false exAst 0).length = 14 ∧ (flat true exAst 0).length = 12 := by decide
example : parseValue (valueText (.canonMapWL "#%m" (.path [.fieldByScalar "k", .arrayAccess 12]))) =
    some (.canonMapWL "#%m" (.path [.fieldByScalar "k", .arrayAccess 12])) := C28_operands _ (by decide)

end AquaProps.C28
