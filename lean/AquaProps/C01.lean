import AquaProps.Lemmas.PanicExecTop
import AquaProps.Lemmas.VerifyData
import Aqua.Gen.PanicSites
/-!
# C01 — the interpreter never crashes or runs out of memory on adversarial input

Panics are VALUES of the model (`Res.panic site`, DESIGN.md §4.2): every `unwrap`/`expect`/`unreachable!`/index/
unchecked `u32` arithmetic that the Rust code performs on the modelled paths is a branch returning the
site's name.  "Never panics" is therefore a statement about the model.  State after the repairs in /repo
(0e86aa7 … d774f34: error_code, scalar/iterator clash, non-JSON raw value, absent trace CID, `try_get_generation`,
`set_position_and_len`, `set_subtrace_len`): the property is still FALSE — four sites are reached by adversarial
CURRENT data (the three `argument_hash` unwraps of `handle_prev_state`, `checked_add(1).unwrap()` on a generation
`u32::MAX`), two more only by previous data the interpreter never produces (request counter `u32::MAX`; a non-JSON
value text, which preparation now rejects in current data).  What is proved:

* `C01_exec_panic_sites_partial` / `C01_exec_farewell_panic_sites_partial`: for ALL environments, fuels,
  scripts, previous/current data, run parameters and call results, the execution stage (and the farewell
  compaction) of the model panics ONLY at a site of the literal list `modelledExecPanicSites` (6 witnessed + 16
  invariant-guarded);
* one `example` per witnessed site: a concrete run that does panic there; for the repaired sites an `example`
  of the same input now ending in the error the code returns;
* `C01_*_never_panics` + the exact error for the repaired components (`Scalars::get_value`, `check_error_object`,
  `set_position_and_len`, `set_subtrace_len`, `try_get_generation`); `C01_*_panics_iff` for the remaining witnessed
  components;
* `C01_exec_no_panic_partial`: if the JSON reader accepts every text, the raw-value site is excluded, and
  `C01_raw_value_guard_established_by_preparation`: for current data the verification step establishes exactly that;
* `C01_trace_handler_panic_sites`: the trace handler alone, over ALL operation sequences and traces (6 sites, none
  known to be reachable through the executor);
* `C01_sites_claimed_by_inventory`: every site string of the theorems is claimed by a scanned Rust site of
  the generated inventory (`Aqua/Gen/PanicSites.lean`, regenerated from the repository on every check).
-/
namespace AquaProps.C01
open Aqua Aqua.Exec Aqua.Air Aqua.Trace Aqua.Json Aqua.Data AquaProps.Panic

/-- the literal list (22 sites): witnessed sites first, then the sites guarded by internal invariants (see
`Panic.execWitnessedSites` / `Panic.execResidualSites`) -/
def modelledExecPanicSites : List String := Panic.execPanicSites

/-- **The only ways the execution stage of the model can panic are the listed sites.** -/
theorem C01_exec_panic_sites_partial (env : Env) (fuel : Nat) (script : Instr) (prev cur : DataIn) (p : RunParams)
    (results : List (String × CallServiceResult)) (s : String)
    (h : (runExec env fuel script prev cur p results).1 = .panic s) : s ∈ modelledExecPanicSites :=
  (exec_panic_sites (L := EL) env fuel script (initCtx prev cur p results)).1 s h

/-- the same including the farewell step's stream compaction -/
theorem C01_exec_farewell_panic_sites_partial (env : Env) (fuel : Nat) (script : Instr) (prev cur : DataIn) (p : RunParams)
    (results : List (String × CallServiceResult)) (s : String)
    (h : (runExecFarewell env fuel script prev cur p results).1 = .panic s) : s ∈ modelledExecPanicSites := by
  unfold runExecFarewell at h
  have hA := C01_exec_panic_sites_partial env fuel script prev cur p results
  cases hr : runExec env fuel script prev cur p results with
  | mk res c =>
    rw [hr] at h hA
    simp only at h hA
    split at h
    · split at h
      · exact hA s h
      · cases h
      · rename_i p' hp
        cases h
        exact compactifyStreams_in (L := EL) c _ hp
    · split at h
      · exact hA s h
      · cases h
      · rename_i p' hp
        cases h
        exact compactifyStreams_in (L := EL) c _ hp
    · exact hA s h

/-- **Guarded version**: if the JSON reader of the environment accepts every text (in particular every raw value
of the content-id stores — the guard excludes exactly the input class "a stored value that is not JSON"), the
raw-value site cannot be reached; the remaining sites are the other listed ones. -/
theorem C01_exec_no_panic_partial (env : Env) (hjson : ∀ t, (env.parseJson t).isSome = true) (fuel : Nat) (script : Instr)
    (prev cur : DataIn) (p : RunParams) (results : List (String × CallServiceResult)) (s : String)
    (h : (runExec env fuel script prev cur p results).1 = .panic s) :
    s ∈ modelledExecPanicSites ∧ s ≠ "raw_value.rs:get_value:expect(TODO handle error)" := by
  haveI : RawOk env execSitesBase := ⟨.inl hjson⟩
  have hb := (exec_panic_sites (L := execSitesBase) env fuel script (initCtx prev cur p results)).1 s h
  refine ⟨List.mem_of_mem_erase hb, ?_⟩
  intro hs
  subst hs
  revert hb
  decide

/-- **The guard of `C01_exec_no_panic_partial` is established by preparation for CURRENT data** (since /repo 7eb402e):
`CidInfo::verify` rejects a value-store text that `serde_json::from_str` rejects (`MalformedValue`), so after a
successful verification every stored value of the current data parses.  (Previous data is the peer's own output: its
texts are renderings of parsed values; values added during the run are renderings too.) -/
theorem C01_raw_value_guard_established_by_preparation (E : Run.VerifyEnv) (env : Env)
    (hE : ∀ t, E.isJson t = (env.parseJson t).isSome) (ci : Run.CidInfo) (h : ci.verify E = .ok ()) :
    ∀ cid raw, (cid, raw) ∈ ci.values → (env.parseJson raw).isSome = true := by
  intro cid raw hm
  rw [← hE]
  exact (AquaProps.VerifyLemmas.verify_ok h).valueJson cid raw hm

/-- every site string used in the theorems is claimed, in `sites/panic_sites.json`, by a panic site that the
translator scanned in the Rust code of this check's repository -/
theorem C01_sites_claimed_by_inventory : ∀ s ∈ modelledExecPanicSites, s ∈ Gen.modelledPanicSites := by decide

/-- **Full statement** (not provable on the unchanged tree — its negation is witnessed below): no input makes
any public entry point panic, abort or allocate out of proportion.  Missing from the partial theorems: the
guards for the other witnessed sites need invariants of the run (they are given locally as `…_panics_iff`);
the residual sites need the executor's internal invariants; stream maps / canon maps, the preparation and
verification stages (modelled for C14 in `Aqua/Run/VerifyData.lean`, panic-free since b547c87), the parser, the pretty-printer and the
beautifier are not modelled; stack and heap exhaustion are run-time facts that no model exhibits — they are
measured on the process by the harness (child process, RLIMIT_AS, counting allocator). -/
def C01_full : Prop :=
  ∀ (env : Env) (fuel : Nat) (script : Instr) (prev cur : DataIn) (p : RunParams) (results : List (String × CallServiceResult)),
    (runExecFarewell env fuel script prev cur p results).1.isPanic = false

/-! ## the exact local conditions of the witnessed sites -/

theorem C01_issueRequest_panics_iff (t : Tetraplet) (args : List Value) (c : Ctx) (vs : List JVal) (tss : List (List Tetraplet))
    (hargs : collectArgs c args = .ok (vs, tss)) :
    issueRequest t args c = .panic "context.rs:next_call_request_id:last_call_request_id+=1" ↔ c.lastCallRequestId ≥ u32Max := by
  unfold issueRequest
  rw [hargs]
  simp only
  split
  · simp; omega
  · simp; omega

theorem sparse_getValue_never_panics {α} (m : SparseMatrix α) (n s : String) : m.getValue n ≠ .panic s := by
  unfold SparseMatrix.getValue
  intro h
  split at h
  · cases h
  · split at h
    · cases h
    · split at h <;> cases h

/-! ### repaired in /repo (0e86aa7 … d774f34): these components no longer panic -/

/-- `Scalars::get_value` never panics (66d8bd2) … -/
theorem C01_getValue_never_panics (s : Scalars) (name site : String) : s.getValue name ≠ .panic site := by
  unfold Scalars.getValue
  cases hv : s.nonIterable.getValue name with
  | panic p => exact absurd hv (sparse_getValue_never_panics _ _ _)
  | error e => cases s.iterable.find? (fun (k, _) => k == name) <;> simp [catchable]
  | ok o =>
    cases o with
    | none => simp [catchable]
    | some x => cases s.iterable.find? (fun (k, _) => k == name) <;> simp [uncatchable]

/-- … and a name bound both as a visible scalar and as a fold iterator is the uncatchable `IterableShadowing`
(it was `unreachable!()`) -/
theorem C01_getValue_clash_is_error (s : Scalars) (name : String) (v : ValueAggregate) (kf : String × FoldState)
    (hv : s.nonIterable.getValue name = .ok (some v)) (hi : s.iterable.find? (fun (k, _) => k == name) = some kf) :
    s.getValue name = .error (.uncatchable (.iterableShadowing name)) := by
  unfold Scalars.getValue
  simp [hv, hi, uncatchable]

/-- `check_error_object` never panics (0e86aa7) … -/
theorem C01_checkErrorObject_never_panics (v : JVal) (s : String) : checkErrorObject v ≠ .panic s := by
  intro h
  unfold checkErrorObject at h
  repeat' split at h
  all_goals cases h

/-- … an `error_code` above `i64::MAX` is rejected as "must have integer type" -/
theorem C01_checkErrorObject_big_code_rejected (kvs : List (String × JVal)) (n : Int)
    (hf : (JVal.obj kvs).getField "error_code" = some (.num n)) (hgt : n > 9223372036854775807) :
    checkErrorObject (.obj kvs) = .error (.scalarFieldIsWrongType (.obj kvs) "error_code" "integer") := by
  unfold checkErrorObject
  simp only [hf]
  simp [hgt]

theorem C01_addValueToGeneration_panics_iff (m : ValuesMatrix) (v : ValueAggregate) (g : Nat) (s : String) :
    m.addValueToGeneration v g = .panic s ↔
      (g ≥ m.values.length ∧ g ≥ u32Max) ∧ s = "values_matrix.rs:add_value_to_generation:generation_idx.checked_add(1).unwrap()" := by
  unfold ValuesMatrix.addValueToGeneration
  split
  · rename_i h; constructor
    · intro hs; cases hs; exact ⟨h, rfl⟩
    · rintro ⟨_, rfl⟩; rfl
  · rename_i h; constructor
    · intro hs; cases hs
    · rintro ⟨h', _⟩; exact absurd h' h

/-- `set_position_and_len` never panics (95e5498): a position + length beyond `u32::MAX` is "out of the trace" -/
theorem C01_setPositionAndLen_never_panics (sl : TraceSlider) (pos len : Nat) (s : String) :
    sl.setPositionAndLen pos len ≠ .panic s := fun h => by
  have := setPositionAndLen_in (L := []) sl pos len s h
  cases this

theorem C01_setPositionAndLen_overflow_is_error (sl : TraceSlider) (pos len : Nat) (hl : len ≠ 0) (ho : pos + len > u32Max) :
    sl.setPositionAndLen pos len = .error .setSubtraceLenAndPosFailed := by
  unfold TraceSlider.setPositionAndLen
  simp [hl, ho]

/-- `set_subtrace_len` never panics (d774f34): a position beyond the trace leaves a remainder of 0 -/
theorem C01_setSubtraceLen_never_panics (sl : TraceSlider) (len : Nat) (s : String) : sl.setSubtraceLen len ≠ .panic s := fun h => by
  have := setSubtraceLen_in (L := []) sl len s h
  cases this

/-- `try_get_generation` never panics (8502764): an `ap` state without generations is `NoStreamState` -/
theorem C01_tryGetGeneration_never_panics (sl : TraceSlider) (pos : Nat) (s : String) : tryGetGeneration sl pos ≠ .panic s := fun h => by
  have := tryGetGeneration_in (L := []) sl pos s h
  cases this

theorem C01_tryGetGeneration_empty_ap_is_error (sl : TraceSlider) (pos : Nat) (h : sl.stateAtPosition pos = some (.ap [])) :
    tryGetGeneration sl pos = .error .noStreamState := by
  unfold tryGetGeneration
  simp [h]

/-! ## witnesses: each of these sites IS reached (the proved negation of "never panics")

`env0` hashes by identity and parses three texts; peer `a` runs data sent by peer `b`.  Every run below is a
closed computation: `exec`'s equations are unfolded (`simp only`), the rest is evaluated by the kernel (`rfl`). -/

def env0 : Env := { hash := fun s => s, parseJson := fun s =>
  if s == "1" then some (.num 1) else if s == "[1,2]" then some (.arr [.num 1, .num 2])
  else if s == "E" then some (JVal.mkObj [("error_code", .num 18446744073709551615), ("message", .str "")]) else none }
def p0 : RunParams := { initPeerId := "b", currentPeerId := "a", timestamp := 0, ttl := 0 }
def lit (s : String) : Value := .literal s
/-- consistent stores for one service result `c` of peer `b` (call `("s" "f")` without arguments) whose value text is `raw` -/
def stores (raw : String) : CidState :=
  { values := [("v", raw)], tetraplets := [("t", ⟨"b", "s", "f", ""⟩)], serviceResults := [("c", ⟨"v", "[]", "t"⟩)] }
def callB (out : CallOutput) : Instr := .call (lit "b") (lit "s") (lit "f") [] out

/-- 1. a stored value that is not JSON (`RawValue::get_value`) -/
example : (runExec env0 1 (callB (.scalar "x")) {} { trace := [.call (.executed (.scalar "c"))], cid := stores "not json" } p0 []).1
    = .panic "raw_value.rs:get_value:expect(TODO handle error)" := by
  simp only [runExec, callB, exec]; rfl

/-- 2.–4. a recorded state for a call whose argument `x` is still undefined on the receiver -/
def sUnres : Instr := .par (callB (.scalar "x")) (.call (lit "a") (lit "s") (lit "g") [.scalar "x"] (.scalar "y"))
def dUnres (st : ExecutedState) : DataIn := { trace := [.par 1 1, .call (.requestSentBy (.peerId "b")), st], cid := stores "1" }
example : (runExec env0 2 sUnres {} (dUnres (.call (.executed (.scalar "c")))) p0 []).1
    = .panic "prev_result_handler.rs:handle_prev_state:argument_hash.unwrap()(Executed)" := by
  simp only [runExec, sUnres, callB, exec, execInner, execSubgraph]; rfl
example : (runExec env0 2 sUnres {} (dUnres (.call (.failed "c"))) p0 []).1
    = .panic "prev_result_handler.rs:handle_prev_state:argument_hash.unwrap()(Failed)" := by
  simp only [runExec, sUnres, callB, exec, execInner, execSubgraph]; rfl
example : (runExec env0 2 sUnres {} (dUnres (.call (.requestSentBy (.peerIdWithCallId "a" 1)))) p0 [("1", ⟨0, "1"⟩)]).1
    = .panic "prev_result_handler.rs:handle_prev_state:argument_hash.expect(Result for joinable error)" := by
  simp only [runExec, sUnres, callB, exec, execInner, execSubgraph]; rfl

/-- 5. the request counter at `u32::MAX` (comes from PREVIOUS data only) -/
example : (runExec env0 1 (.call (lit "a") (lit "s") (lit "f") [] (.scalar "x")) { lcid := 4294967295 } {} p0 []).1
    = .panic "context.rs:next_call_request_id:last_call_request_id+=1" := by
  simp only [runExec, exec]; rfl

/-- REPAIRED (66d8bd2): a scalar and a fold iterator with the same name (an ordinary script, honest data: the second run)
now ends in the uncatchable `IterableShadowing` -/
def sClash : Instr :=
  .seq (.call (lit "a") (lit "s") (lit "arr") [] (.scalar "x"))
       (.foldScalar (.scalar "x") "x" (.seq (.call (lit "a") (lit "s") (lit "id") [.scalar "x"] .none) (.next "x")) none)
example : (runExec env0 4 sClash { trace := [.call (.requestSentBy (.peerIdWithCallId "a" 1))], lcid := 1 } {} p0 [("1", ⟨0, "[1,2]"⟩)]).1
    = .error (.uncatchable (.iterableShadowing "x")) := by
  simp only [runExec, sClash, exec, execInner]; rfl

/-- REPAIRED (0e86aa7): `(fail x)` with `error_code` above `i64::MAX` is the catchable `InvalidErrorObjectError`
("error_code … must have integer type") -/
def sFail : Instr := .seq (.call (lit "a") (lit "s") (lit "f") [] (.scalar "x")) (.fail (.scalar "x"))
def isWrongErrorCodeType : Res ExecErr Unit → Bool
  | .error (.catchable (.invalidErrorObjectError (.scalarFieldIsWrongType _ "error_code" "integer"))) => true
  | _ => false
example : isWrongErrorCodeType
    (runExec env0 2 sFail { trace := [.call (.requestSentBy (.peerIdWithCallId "a" 1))], lcid := 1 } {} p0 [("1", ⟨0, "E"⟩)]).1 = true := by
  simp only [runExec, sFail, exec, execInner]; rfl

/-- 6. a stream value recorded with generation `u32::MAX` -/
example : (runExec env0 1 (callB (.stream "$s" 1)) {} { trace := [.call (.executed (.stream "c" 4294967295))], cid := stores "1" } p0 []).1
    = .panic "values_matrix.rs:add_value_to_generation:generation_idx.checked_add(1).unwrap()" := by
  simp only [runExec, callB, exec]; rfl

/-- REPAIRED (8502764, 95e5498, d774f34): hostile fold lore in the data of a stream fold.  A value position naming an `ap`
state without generations is now the uncatchable `TraceError` (`NoStreamState`); the lore positions are shown on the
trace handler below (the fold loops of `exec` are well-founded recursions the kernel does not unfold under a binder) -/
def sFold (body : Instr) : Instr := .seq (callB (.stream "$s" 1)) (.foldStream "$s" 1 "i" body none 0)
def bodySeq : Instr := .seq (.call (lit "a") (lit "s") (lit "id") [.scalar "i"] (.scalar "y")) (.next "i")
def bodyPar : Instr := .par (.call (lit "a") (lit "s") (lit "id") [.scalar "i"] (.scalar "y")) (.next "i")
def dFold (lore : List FoldSubTraceLore) (rest : Trace) : DataIn :=
  { trace := [.call (.executed (.stream "c" 0)), .fold lore] ++ rest, cid := stores "1" }

def isNoStreamStateTraceError : Res ExecErr Unit → Bool
  | .error (.uncatchable (.traceError (.merge (.keeper .noStreamState)) _)) => true
  | _ => false
example : isNoStreamStateTraceError (runExec env0 3 (sFold bodySeq) {} (dFold [⟨2, [⟨3, 0⟩, ⟨3, 0⟩]⟩] [.ap []]) p0 []).1 = true := by
  simp only [runExec, sFold, callB, exec, execInner]; rfl

/-! ## the trace handler alone, over all operation sequences -/

inductive TraceOp
  | callStart | callEnd (c : CallResult) | apStart | apEnd (gens : List Nat) | canonStart | canonEnd (c : CanonResult)
  | parStart | parEnd (t : SubgraphType)
  | foldStart (id : Nat) | iterStart (id pos : Nat) | iterEnd (id : Nat) | backIter (id : Nat) | genEnd (id : Nat) | foldEnd (id : Nat)
  | updateGeneration (pos gen : Nat)

/-- one call of a `TraceHandler` entry point (answers are dropped; a failed `update_generation` leaves the handler unchanged) -/
def applyOp (h : TraceHandler) : TraceOp → TR TraceHandler
  | .callStart => h.meetCallStart.bind fun r => .ok r.2
  | .callEnd c => .ok (h.meetCallEnd c)
  | .apStart => h.meetApStart.bind fun r => .ok r.2
  | .apEnd g => .ok (h.meetApEnd g)
  | .canonStart => h.meetCanonStart.bind fun r => .ok r.2
  | .canonEnd c => .ok (h.meetCanonEnd c)
  | .parStart => h.meetParStart
  | .parEnd t => h.meetParSubgraphEnd t
  | .foldStart id => h.meetFoldStart id
  | .iterStart id pos => h.meetIterationStart id pos
  | .iterEnd id => h.meetIterationEnd id
  | .backIter id => h.meetBackIterator id
  | .genEnd id => h.meetGenerationEnd id
  | .foldEnd id => h.meetFoldEnd id
  | .updateGeneration p g => match h.updateGeneration p g with
    | .ok h' => .ok h'
    | .error _ => .ok h
    | .panic s => .panic s

def runOps : List TraceOp → TraceHandler → TR TraceHandler
  | [], h => .ok h
  | op :: rest, h => (applyOp h op).bind (runOps rest)

def traceHandlerPanicSites : List String := [sCUM, sLB, sLA, sCUR0, sCURI, sTB]

theorem applyOp_panic_sites (h : TraceHandler) (op : TraceOp) : ResIn traceHandlerPanicSites (applyOp h op) := by
  have m : ∀ s ∈ traceHandlerPanicSites, s ∈ traceHandlerPanicSites := fun _ h => h
  have h6 : sCUM ∈ traceHandlerPanicSites := by simp [traceHandlerPanicSites]
  have h7 : sLB ∈ traceHandlerPanicSites := by simp [traceHandlerPanicSites]
  have h8 : sLA ∈ traceHandlerPanicSites := by simp [traceHandlerPanicSites]
  have h9 : sCUR0 ∈ traceHandlerPanicSites := by simp [traceHandlerPanicSites]
  have h10 : sCURI ∈ traceHandlerPanicSites := by simp [traceHandlerPanicSites]
  have h11 : sTB ∈ traceHandlerPanicSites := by simp [traceHandlerPanicSites]
  cases op with
  | callStart => exact resIn_rbind (meetCallStart_in h) fun _ => resIn_ok _
  | callEnd c => exact resIn_ok _
  | apStart => exact resIn_rbind (meetApStart_in h) fun _ => resIn_ok _
  | apEnd g => exact resIn_ok _
  | canonStart => exact resIn_rbind (meetCanonStart_in h) fun _ => resIn_ok _
  | canonEnd c => exact resIn_ok _
  | parStart => exact meetParStart_in h
  | parEnd t => exact meetParSubgraphEnd_in h t
  | foldStart id => exact meetFoldStart_in h6 h id
  | iterStart id pos => exact meetIterationStart_in h id pos
  | iterEnd id => exact meetIterationEnd_in h9 h10 h id
  | backIter id => exact meetBackIterator_in h9 h10 h11 h id
  | genEnd id => exact meetGenerationEnd_in h7 h8 h id
  | foldEnd id => exact meetFoldEnd_in h id
  | updateGeneration p g =>
    show ResIn _ (match h.updateGeneration p g with | .ok h' => (.ok h' : TR TraceHandler) | .error _ => .ok h | .panic s => .panic s)
    split
    · exact resIn_ok _
    · exact resIn_ok _
    · rename_i s hs
      exfalso
      unfold TraceHandler.updateGeneration at hs
      split at hs <;> cases hs

/-- **the trace handler panics only at six arithmetic / index sites — none of which the executor is known to reach (the two
`position - 1` sites of the position mapping are proved unreachable: `tryMergeNextStateAsCall_never`; the slider and
`try_get_generation` sites were repaired in /repo 95e5498, d774f34, 8502764 and are proved panic-free above)**, whatever the two traces and whatever
sequence of entry points is called on it (any handler state, not only reachable ones) -/
theorem C01_trace_handler_panic_sites (ops : List TraceOp) (h : TraceHandler) (s : String)
    (hp : runOps ops h = .panic s) : s ∈ traceHandlerPanicSites := by
  induction ops generalizing h with
  | nil => cases hp
  | cons op rest ih =>
    unfold runOps at hp
    cases ha : applyOp h op with
    | ok h' => rw [ha] at hp; exact ih h' hp
    | error e => rw [ha] at hp; cases hp
    | panic s' => rw [ha] at hp; cases hp; exact applyOp_panic_sites h op _ ha

/-- in particular for the handler the interpreter starts from -/
theorem C01_trace_handler_panic_sites_from_traces (prev cur : Trace) (ops : List TraceOp) (s : String)
    (hp : runOps ops (TraceHandler.fromTrace prev cur) = .panic s) : s ∈ traceHandlerPanicSites :=
  C01_trace_handler_panic_sites ops _ s hp

/-- REPAIRED: lore `begin = u32::MAX, len = 1`: the executor's calls for `(seq (call b .. $s) (fold $s i ..))` on the data
`[stream value, fold lore, sent]` are `call_start, call_end, fold_start, iteration_start`; the last one is now rejected -/
example : runOps [.callStart, .callEnd (.executed (.stream "c" 0)), .foldStart 1, .iterStart 1 0]
    (TraceHandler.fromTrace [] [.call (.executed (.stream "c" 0)), .fold [⟨0, [⟨4294967295, 1⟩, ⟨2, 0⟩]⟩], .call (.requestSentBy (.peerId "b"))])
    = .error (.fsm (.keeper .setSubtraceLenAndPosFailed)) := by rfl
/-- REPAIRED: lore `begin = 4·10⁹, len = 0` followed by a `par` in the fold body: `trace_len - position` saturates at 0 -/
example : (match runOps [.callStart, .callEnd (.executed (.stream "c" 0)), .foldStart 1, .iterStart 1 0, .parStart]
    (TraceHandler.fromTrace [] [.call (.executed (.stream "c" 0)), .fold [⟨0, [⟨4000000000, 0⟩, ⟨2, 0⟩]⟩]]) with | .ok _ => true | _ => false) = true := by rfl

/-- op-sequence witnesses of sites the executor is not known to reach -/
example : runOps [.foldStart 1, .iterEnd 1] (TraceHandler.fromTrace [] []) = .panic sCUR0 := by rfl
example : runOps [.foldStart 1, .iterStart 1 0, .backIter 1, .backIter 1] (TraceHandler.fromTrace [] []) = .panic sCUR0 := by rfl

end AquaProps.C01
