import Aqua.Crypto.CidVerify
import AquaProps.Lemmas.JsonObj
import AquaProps.Lemmas.JsonEq
import AquaProps.Lemmas.CidText
/-!
# C25 — content ids are canonical and verification accepts exactly the matching pairs

Model: `Aqua.Crypto.CidVerify` (the four public functions of `air-interpreter-cid` over the `cid`,
`multihash`, `multibase`, `data-encoding`, `base-x`, `unsigned-varint` crates), `Aqua.Json.Value`
(`JValue` with `BTreeMap` objects and the compact printer of `serde_json`).

The hash functions are a parameter `H : Hashers` of every theorem (they hold for any pair of functions);
where the 32-byte digest size matters it is the hypothesis `HashersWf H`.  Constants (`JSON_CODEC`, the
multihash codes, the `Code::X => hasher` arms of the two verify functions, the code and constructor used by
the two producing functions) come from `Aqua.Gen.Cid`, regenerated from the Rust source on every check;
`C25_constants` pins what the statements below rely on.
-/
namespace AquaProps.C25
open Aqua Aqua.Json Aqua.Crypto.Multibase Aqua.Crypto.CidVerify AquaProps.JsonObj AquaProps.CidText

/-- both hashers have 32-byte digests (true of SHA-256 and BLAKE3-256) -/
structure HashersWf (H : Hashers) : Prop where
  sha256_len : ∀ b, (H.sha256 b).length = 32
  blake3_len : ∀ b, (H.blake3 b).length = 32

theorem hasher_len {H : Hashers} (hw : HashersWf H) (alg : Code) (b : Bytes) : (alg.hasher H b).length = 32 := by
  cases alg
  · exact hw.sha256_len b
  · exact hw.blake3_len b

/-! ## The constants taken from the Rust source -/

/-- What the generated tables say: the JSON codec is `0x0200`; SHA2-256 is code `0x12`, BLAKE3-256 is `0x1e`;
both verify functions recompute the digest for exactly these two codes with the matching hasher; both
producing functions make a CIDv1 with `JSON_CODEC` and the BLAKE3-256 multihash; CIDv0 carries dag-pb. -/
theorem C25_constants :
    JSON_CODEC = 0x0200 ∧ Code.Sha2_256.toU64 = 0x12 ∧ Code.Blake3_256.toU64 = 0x1e ∧ DAG_PB = 0x70 ∧
    Gen.Cid.verifyValueArms.filterMap Code.ofArm = [.Sha2_256, .Blake3_256] ∧
    Gen.Cid.verifyRawValueArms.filterMap Code.ofArm = [.Sha2_256, .Blake3_256] ∧
    Gen.Cid.verifyValueArms.length = 2 ∧ Gen.Cid.verifyRawValueArms.length = 2 ∧
    producerCode Gen.Cid.valueToJsonCid = some .Blake3_256 ∧
    producerCode Gen.Cid.rawValueToJsonCid = some .Blake3_256 ∧
    Gen.Cid.verifyValueCodecGuard = "eq" ∧ Gen.Cid.verifyRawValueCodecGuard = "eq" ∧
    Gen.Cid.verifyValueCompare = "expected_hash == mhash.digest()" ∧
    Gen.Cid.verifyRawValueCompare = "expected_hash == mhash.digest()" ∧
    Gen.Cid.cidV1DisplayBase = "Base32Lower" ∧
    Gen.Cid.multibaseCodes = Base.all.map (fun b => (b.code.toNat, b.name)) := by decide

theorem code_toU64_inj (a b : Code) (h : a.toU64 = b.toU64) : a = b := by
  cases a <;> cases b <;> first | rfl | (exfalso; revert h; decide)

/-! ## Ids are a function of the value -/

/-- **Objects are canonical.**  Two insertion sequences of (key, value) pairs — any order, with
duplicates, the later pair winning as `BTreeMap::insert` does — build the same `JValue` iff they end up
with the same key→value map. -/
theorem C25_object_eq_iff (l₁ l₂ : List (String × JVal)) :
    JVal.mkObj l₁ = JVal.mkObj l₂ ↔ ∀ k, finalMap l₁ k = finalMap l₂ k :=
  mkObj_eq_iff l₁ l₂

/-- **The id is a function of the value only.**  Whatever the insertion order and duplicates, objects
with the same final key→value map are the same value, are serialised to the same bytes and get the same
id — also when the object sits anywhere inside a larger value (`ctx`). -/
theorem C25_cid_function_of_value (H : Hashers) (l₁ l₂ : List (String × JVal))
    (h : ∀ k, finalMap l₁ k = finalMap l₂ k) (ctx : JVal → JVal) :
    ctx (JVal.mkObj l₁) = ctx (JVal.mkObj l₂) ∧
    jsonBytes (ctx (JVal.mkObj l₁)) = jsonBytes (ctx (JVal.mkObj l₂)) ∧
    valueToJsonCid H (ctx (JVal.mkObj l₁)) = valueToJsonCid H (ctx (JVal.mkObj l₂)) := by
  have := (mkObj_eq_iff l₁ l₂).mpr h
  rw [this]
  exact ⟨rfl, rfl, rfl⟩

/-- Key-order permutations of pairs with distinct keys give the same id. -/
theorem C25_cid_permutation_invariant (H : Hashers) (l₁ l₂ : List (String × JVal))
    (hp : l₁.Perm l₂) (hn : (l₁.map Prod.fst).Nodup) (ctx : JVal → JVal) :
    valueToJsonCid H (ctx (JVal.mkObj l₁)) = valueToJsonCid H (ctx (JVal.mkObj l₂)) :=
  (C25_cid_function_of_value H l₁ l₂ (finalMap_perm hp hn) ctx).2.2

/-- The object built by `mkObj` is the sorted, duplicate-free table of the final map (what `BTreeMap`
iteration yields), so the printed text lists each key once, in byte order. -/
theorem C25_object_sorted (l : List (String × JVal)) :
    ∃ kvs, JVal.mkObj l = .obj kvs ∧ Sorted kvs ∧ ∀ k, kvs.lookup k = finalMap l k :=
  mkObj_sorted_lookup l

/-- **Equal values get equal ids** — for the model's values: values that are `==` (structurally equal, floats
compared by their printed text) are the same value, and values with equal serialisations get equal ids: the id
depends on nothing but the serialised bytes (no peer, no state), `value_to_json_cid v =
raw_value_to_json_cid (to_vec v)`.

Partial with respect to `C25_equal_values_full`: the interpreter's own `==` on `JValue` compares float numbers
with `f64 ==`; the model carries floats as their printed text and cannot express that. -/
theorem C25_equal_values_equal_ids_partial (H : Hashers) (v₁ v₂ : JVal) :
    ((v₁ == v₂) = true → v₁ = v₂) ∧
    (jsonBytes v₁ = jsonBytes v₂ → valueToJsonCid H v₁ = valueToJsonCid H v₂) ∧
    valueToJsonCid H v₁ = rawValueToJsonCid H (jsonBytes v₁) := by
  have e : Gen.Cid.valueToJsonCid = Gen.Cid.rawValueToJsonCid := by decide
  refine ⟨AquaProps.JsonEq.beq_iff v₁ v₂, fun h => ?_, ?_⟩
  · unfold valueToJsonCid; rw [h]
  · unfold valueToJsonCid rawValueToJsonCid; rw [e]

/-- The full statement, with `eqv` standing for `JValue`'s `PartialEq` (derived; numbers by
`serde_json::Number`, floats with `f64 ==`).  It is NOT proved, and it is FALSE of the real code:
`JValue::from(0.0) == JValue::from(-0.0)` while their ids differ (they print as `0.0` / `-0.0`) — the
direct oracle of the harness reports it (finding `equal-jvalues-zero-sign-different-ids`).  For all other
values `eqv` coincides with the model's `==` and `C25_equal_values_equal_ids_partial` applies. -/
def C25_equal_values_full (H : Hashers) (eqv : JVal → JVal → Bool) : Prop :=
  ∀ v₁ v₂, eqv v₁ v₂ = true → valueToJsonCid H v₁ = valueToJsonCid H v₂

/-! ## What the produced id is -/

theorem rawValueToJsonCid_eq (H : Hashers) (raw : Bytes) (h : (H.blake3 raw).length ≤ 64) :
    rawValueToJsonCid H raw =
      .ok (Cid.newV1 JSON_CODEC ⟨Code.Blake3_256.toU64, H.blake3 raw⟩).toStringV1 := by
  have hp : producerCode Gen.Cid.rawValueToJsonCid = some .Blake3_256 := by decide
  unfold rawValueToJsonCid rawValueToJsonCidWith
  rw [hp]
  simp only [Code.hasher, Multihash.wrap, allocSize]
  have : ¬ (H.blake3 raw).length > 64 := by omega
  simp [this]

theorem valueToJsonCid_eq_raw (H : Hashers) (v : JVal) : valueToJsonCid H v = rawValueToJsonCid H (jsonBytes v) := by
  have e : Gen.Cid.valueToJsonCid = Gen.Cid.rawValueToJsonCid := by decide
  unfold valueToJsonCid rawValueToJsonCid
  rw [e]

/-! ## Verification -/

theorem arms_value : Gen.Cid.verifyValueArms.filterMap Code.ofArm = [.Sha2_256, .Blake3_256] := by decide
theorem arms_raw : Gen.Cid.verifyRawValueArms.filterMap Code.ofArm = [.Sha2_256, .Blake3_256] := by decide

/-- the digest recomputation: a supported code gives its hash, any other code `UnsupportedHashCode` -/
theorem expectedHash_spec (H : Hashers) (arms : List (String × String))
    (ha : arms.filterMap Code.ofArm = [.Sha2_256, .Blake3_256]) (rawCode : Nat) (bytes : Bytes) :
    (∃ alg : Code, alg.toU64 = rawCode ∧ expectedHash H arms rawCode bytes = .ok (alg.hasher H bytes)) ∨
    ((∀ alg : Code, alg.toU64 ≠ rawCode) ∧ expectedHash H arms rawCode bytes = .error (.UnsupportedHashCode rawCode)) := by
  unfold expectedHash
  rw [ha]
  by_cases h1 : Code.Sha2_256.toU64 = rawCode
  · left
    refine ⟨.Sha2_256, h1, ?_⟩
    simp [List.find?, h1]
  · by_cases h2 : Code.Blake3_256.toU64 = rawCode
    · left
      refine ⟨.Blake3_256, h2, ?_⟩
      have : (Code.Sha2_256.toU64 == rawCode) = false := by simpa using h1
      simp [List.find?, this, h2]
    · right
      refine ⟨fun alg => by cases alg <;> assumption, ?_⟩
      have e1 : (Code.Sha2_256.toU64 == rawCode) = false := by simpa using h1
      have e2 : (Code.Blake3_256.toU64 == rawCode) = false := by simpa using h2
      simp [List.find?, e1, e2]

/-- the common body of the two verify functions, once the text is parsed -/
def verifyParsed (H : Hashers) (arms : List (String × String)) (c : Cid) (bytes : Bytes) : Except CidVerificationError Unit :=
  if c.codec != JSON_CODEC then .error (.UnsupportedCidCodec c.codec)
  else
    match expectedHash H arms c.hash.code bytes with
    | .error e => .error e
    | .ok expected => if expected == c.hash.digest then .ok () else .error .ValueMismatch

theorem verifyRawValue_eq (H : Hashers) (cid raw : Bytes) :
    verifyRawValue H cid raw =
      match Cid.tryFromStr cid with
      | .error e => .error (.MalformedCid e)
      | .ok c => verifyParsed H Gen.Cid.verifyRawValueArms c raw := by
  unfold verifyRawValue verifyParsed
  cases Cid.tryFromStr cid <;> rfl

theorem verifyValue_eq (H : Hashers) (cid : Bytes) (v : JVal) :
    verifyValue H cid v =
      match Cid.tryFromStr cid with
      | .error e => .error (.MalformedCid e)
      | .ok c => verifyParsed H Gen.Cid.verifyValueArms c (jsonBytes v) := by
  unfold verifyValue verifyParsed
  cases Cid.tryFromStr cid <;> rfl

/-- **Every outcome of the checks after parsing**, in the order the Rust code makes them: a foreign codec is
`UnsupportedCidCodec(codec)`; then a hash code other than SHA2-256 / BLAKE3-256 is
`UnsupportedHashCode(code)`; then the recomputed digest must equal the id's digest bytes as a whole —
`Ok` — and anything else is `ValueMismatch`. -/
theorem verifyParsed_spec (H : Hashers) (arms : List (String × String))
    (ha : arms.filterMap Code.ofArm = [.Sha2_256, .Blake3_256]) (c : Cid) (bytes : Bytes) :
    (c.codec ≠ JSON_CODEC ∧ verifyParsed H arms c bytes = .error (.UnsupportedCidCodec c.codec)) ∨
    (c.codec = JSON_CODEC ∧ (∀ alg : Code, alg.toU64 ≠ c.hash.code) ∧
        verifyParsed H arms c bytes = .error (.UnsupportedHashCode c.hash.code)) ∨
    (c.codec = JSON_CODEC ∧ ∃ alg : Code, alg.toU64 = c.hash.code ∧
        ((c.hash.digest = alg.hasher H bytes ∧ verifyParsed H arms c bytes = .ok ()) ∨
         (c.hash.digest ≠ alg.hasher H bytes ∧ verifyParsed H arms c bytes = .error .ValueMismatch))) := by
  unfold verifyParsed
  by_cases hc : c.codec = JSON_CODEC
  · right
    have hc' : (c.codec != JSON_CODEC) = false := by simp [hc]
    simp only [hc', Bool.false_eq_true, if_false]
    rcases expectedHash_spec H arms ha c.hash.code bytes with ⟨alg, hcode, he⟩ | ⟨hno, he⟩
    · right
      refine ⟨hc, alg, hcode, ?_⟩
      rw [he]
      by_cases hd : c.hash.digest = alg.hasher H bytes
      · left; refine ⟨hd, ?_⟩; simp [hd]
      · right; refine ⟨hd, ?_⟩
        have : (alg.hasher H bytes == c.hash.digest) = false := by
          simp only [beq_eq_false_iff_ne, ne_eq]; exact fun e => hd e.symm
        simp [this]
    · left
      exact ⟨hc, hno, by rw [he]⟩
  · left
    have hc' : (c.codec != JSON_CODEC) = true := by simp [hc]
    exact ⟨hc, by simp [hc']⟩

theorem verifyParsed_ok_iff (H : Hashers) (arms : List (String × String))
    (ha : arms.filterMap Code.ofArm = [.Sha2_256, .Blake3_256]) (c : Cid) (bytes : Bytes) :
    verifyParsed H arms c bytes = .ok () ↔
      c.codec = JSON_CODEC ∧ ∃ alg : Code, c.hash.code = alg.toU64 ∧ c.hash.digest = alg.hasher H bytes := by
  constructor
  · intro h
    rcases verifyParsed_spec H arms ha c bytes with ⟨_, he⟩ | ⟨_, _, he⟩ | ⟨hc, alg, hcode, ⟨hd, _⟩ | ⟨_, he⟩⟩
    · rw [he] at h; cases h
    · rw [he] at h; cases h
    · exact ⟨hc, alg, hcode.symm, hd⟩
    · rw [he] at h; cases h
  · rintro ⟨hc, alg, hcode, hd⟩
    rcases verifyParsed_spec H arms ha c bytes with ⟨hc', _⟩ | ⟨_, hno, _⟩ | ⟨_, alg', hcode', ⟨_, he⟩ | ⟨hd', _⟩⟩
    · exact absurd hc hc'
    · exact absurd hcode.symm (hno alg)
    · exact he
    · have : alg' = alg := code_toU64_inj _ _ (hcode'.trans hcode)
      subst this
      exact absurd hd hd'

/-- a text that parses to a CIDv0 carries the dag-pb codec -/
theorem readBytes_version (bytes : Bytes) (c : Cid) (h : Cid.readBytes bytes = .ok c) :
    (c.version = .V0 ∧ c.codec = DAG_PB) ∨ c.version = .V1 := by
  unfold Cid.readBytes at h
  split at h
  · cases h
  · split at h
    · cases h
    · split at h
      · split at h
        · cases h
        · split at h
          · cases h
          · unfold Cid.newV0 at h
            split at h
            · cases h
            · injection h with h; subst h; left; exact ⟨rfl, rfl⟩
      · split at h
        · cases h
        · cases h
        · split at h
          · cases h
          · unfold Cid.new Cid.newV1 at h
            injection h with h; subst h; right; rfl

theorem tryFromStr_version (s : Bytes) (c : Cid) (h : Cid.tryFromStr s = .ok c) :
    (c.version = .V0 ∧ c.codec = DAG_PB) ∨ c.version = .V1 := by
  have key : ∀ hash : Bytes,
      (if hash.length < 2 then (.error .InputTooShort : Except CidError Cid)
       else
        match (if Version.isV0Str hash then Base.Base58Btc.decode hash
               else (Aqua.Crypto.Multibase.decode hash).map (·.2)) with
        | none => .error .ParsingError
        | some bytes => Cid.readBytes bytes) = .ok c →
      (c.version = .V0 ∧ c.codec = DAG_PB) ∨ c.version = .V1 := by
    intro hash hh
    split at hh
    · cases hh
    · split at hh
      · cases hh
      · exact readBytes_version _ c hh
  unfold Cid.tryFromStr at h
  exact key _ h

theorem dagPb_ne_json : DAG_PB ≠ JSON_CODEC := by decide

/-- **`verify_raw_value` accepts exactly the matching pairs**: the text decodes (as `Cid::try_from` decodes
it) to a CIDv1 with the JSON codec whose multihash code is SHA2-256 or BLAKE3-256 and whose digest bytes
are, in full, that hash of the value bytes. -/
theorem C25_verify_raw_iff (H : Hashers) (cid raw : Bytes) :
    verifyRawValue H cid raw = .ok () ↔
      ∃ c, Cid.tryFromStr cid = .ok c ∧ c.version = .V1 ∧ c.codec = JSON_CODEC ∧
        ∃ alg : Code, c.hash.code = alg.toU64 ∧ c.hash.digest = alg.hasher H raw := by
  rw [verifyRawValue_eq]
  constructor
  · intro h
    cases hp : Cid.tryFromStr cid with
    | error e => rw [hp] at h; cases h
    | ok c =>
      rw [hp] at h
      obtain ⟨hc, alg, h1, h2⟩ := (verifyParsed_ok_iff H _ arms_raw c raw).mp h
      refine ⟨c, rfl, ?_, hc, alg, h1, h2⟩
      rcases tryFromStr_version cid c hp with ⟨_, hd⟩ | hv
      · exact absurd (hd.symm.trans hc) dagPb_ne_json
      · exact hv
  · rintro ⟨c, hp, _, hc, alg, h1, h2⟩
    rw [hp]
    exact (verifyParsed_ok_iff H _ arms_raw c raw).mpr ⟨hc, alg, h1, h2⟩

/-- **`verify_value` accepts exactly the matching pairs** (the value bytes are the value's compact JSON). -/
theorem C25_verify_iff (H : Hashers) (cid : Bytes) (v : JVal) :
    verifyValue H cid v = .ok () ↔
      ∃ c, Cid.tryFromStr cid = .ok c ∧ c.version = .V1 ∧ c.codec = JSON_CODEC ∧
        ∃ alg : Code, c.hash.code = alg.toU64 ∧ c.hash.digest = alg.hasher H (jsonBytes v) := by
  have : verifyValue H cid v = verifyRawValue H cid (jsonBytes v) := by
    rw [verifyValue_eq, verifyRawValue_eq]
    have e : Gen.Cid.verifyValueArms = Gen.Cid.verifyRawValueArms := by decide
    rw [e]
  rw [this]
  exact C25_verify_raw_iff H cid (jsonBytes v)

/-- `verify_value` is `verify_raw_value` on the serialised value, error variant included. -/
theorem C25_verify_value_eq_raw (H : Hashers) (cid : Bytes) (v : JVal) :
    verifyValue H cid v = verifyRawValue H cid (jsonBytes v) := by
  rw [verifyValue_eq, verifyRawValue_eq]
  have e : Gen.Cid.verifyValueArms = Gen.Cid.verifyRawValueArms := by decide
  rw [e]

/-- **Which error for which rejection** (both functions, `bytes` = the value's JSON bytes):
an undecodable text is `MalformedCid(e)` with the `cid` crate's error; a decoded id with another codec is
`UnsupportedCidCodec(codec)` — in particular every CIDv0 (`C25_cidv0_rejected`); then another hash code is
`UnsupportedHashCode(code)`; then a digest that differs in any way from the recomputed one is
`ValueMismatch`. -/
theorem C25_verify_errors (H : Hashers) (cid raw : Bytes) :
    (∃ e, Cid.tryFromStr cid = .error e ∧ verifyRawValue H cid raw = .error (.MalformedCid e)) ∨
    (∃ c, Cid.tryFromStr cid = .ok c ∧
      ((c.codec ≠ JSON_CODEC ∧ verifyRawValue H cid raw = .error (.UnsupportedCidCodec c.codec)) ∨
       (c.codec = JSON_CODEC ∧ (∀ alg : Code, alg.toU64 ≠ c.hash.code) ∧
          verifyRawValue H cid raw = .error (.UnsupportedHashCode c.hash.code)) ∨
       (c.codec = JSON_CODEC ∧ ∃ alg : Code, alg.toU64 = c.hash.code ∧
          ((c.hash.digest = alg.hasher H raw ∧ verifyRawValue H cid raw = .ok ()) ∨
           (c.hash.digest ≠ alg.hasher H raw ∧ verifyRawValue H cid raw = .error .ValueMismatch))))) := by
  rw [verifyRawValue_eq]
  cases hp : Cid.tryFromStr cid with
  | error e => left; exact ⟨e, rfl, rfl⟩
  | ok c => right; exact ⟨c, rfl, verifyParsed_spec H _ arms_raw c raw⟩

/-- **Truncated digests are rejected**: an id whose digest is not 32 bytes long never verifies (with a
supported code and the JSON codec the error is `ValueMismatch`). -/
theorem C25_truncated_digest_rejected (H : Hashers) (hw : HashersWf H) (cid raw : Bytes) (c : Cid)
    (hp : Cid.tryFromStr cid = .ok c) (hlen : c.hash.digest.length ≠ 32) :
    verifyRawValue H cid raw ≠ .ok () ∧
    (c.codec = JSON_CODEC → (∃ alg : Code, alg.toU64 = c.hash.code) →
      verifyRawValue H cid raw = .error .ValueMismatch) := by
  constructor
  · intro h
    obtain ⟨c', hp', _, _, alg, _, hd⟩ := (C25_verify_raw_iff H cid raw).mp h
    rw [hp] at hp'
    injection hp' with hp'
    subst hp'
    rw [hd, hasher_len hw] at hlen
    exact hlen rfl
  · intro hc ⟨alg, hcode⟩
    rcases C25_verify_errors H cid raw with ⟨e, he, _⟩ | ⟨c', hp', h⟩
    · rw [hp] at he; cases he
    · rw [hp] at hp'
      injection hp' with hp'
      subst hp'
      rcases h with ⟨hc', _⟩ | ⟨_, hno, _⟩ | ⟨_, alg', _, ⟨hd, _⟩ | ⟨_, he⟩⟩
      · exact absurd hc hc'
      · exact absurd hcode (hno alg)
      · rw [hd, hasher_len hw] at hlen; exact absurd rfl hlen
      · exact he

/-- **CIDv0 is never accepted**: it carries the dag-pb codec, the verdict is `UnsupportedCidCodec(0x70)`. -/
theorem C25_cidv0_rejected (H : Hashers) (cid raw : Bytes) (c : Cid)
    (hp : Cid.tryFromStr cid = .ok c) (hv : c.version = .V0) :
    verifyRawValue H cid raw = .error (.UnsupportedCidCodec 0x70) := by
  rcases tryFromStr_version cid c hp with ⟨_, hd⟩ | hv1
  · rw [verifyRawValue_eq, hp]
    unfold verifyParsed
    have : (c.codec != JSON_CODEC) = true := by rw [hd]; decide
    simp only [this, if_true]
    rw [hd]
    rfl
  · rw [hv] at hv1; cases hv1

/-- **A different digest is rejected**: if an id verifies for a value, no id with the same hash code but
other digest bytes (one flipped bit, a byte more or less) verifies for that value. -/
theorem C25_distinct_digest_rejected (H : Hashers) (cid cid' raw : Bytes) (c c' : Cid)
    (hp : Cid.tryFromStr cid = .ok c) (hp' : Cid.tryFromStr cid' = .ok c')
    (hok : verifyRawValue H cid raw = .ok ()) (hcode : c'.hash.code = c.hash.code)
    (hd : c'.hash.digest ≠ c.hash.digest) :
    verifyRawValue H cid' raw ≠ .ok () := by
  intro h
  obtain ⟨c₁, hp₁, _, _, alg₁, hc₁, hd₁⟩ := (C25_verify_raw_iff H cid raw).mp hok
  obtain ⟨c₂, hp₂, _, _, alg₂, hc₂, hd₂⟩ := (C25_verify_raw_iff H cid' raw).mp h
  rw [hp] at hp₁; injection hp₁ with hp₁; subst hp₁
  rw [hp'] at hp₂; injection hp₂ with hp₂; subst hp₂
  have : alg₁ = alg₂ := code_toU64_inj _ _ (by rw [← hc₁, ← hc₂, hcode])
  subst this
  exact hd (hd₂.trans hd₁.symm)

/-- **Text round trip**: for every CIDv1 that fits the crate's type (`u64` codec and multihash code, digest of
at most 64 bytes) the text `cid` writes (`Display`: multibase `b`, base32 lower case, no padding) parses back
to that CID: `Cid::try_from(c.to_string()) = Ok(c)`. -/
theorem C25_text_roundtrip (c : Cid) (hv : c.version = .V1) (hcodec : c.codec < 2 ^ 64)
    (hcode : c.hash.code < 2 ^ 64) (hlen : c.hash.digest.length ≤ 64) :
    Cid.tryFromStr c.toStringV1 = .ok c :=
  tryFromStr_toStringV1' c hv hcodec hcode hlen

/-- **Every produced id verifies**: `raw_value_to_json_cid` does not panic (the digest fits) and its id is
accepted for the same bytes; `value_to_json_cid v` is accepted by `verify_value` for `v` and by
`verify_raw_value` for the serialised `v`. -/
theorem C25_verify_own (H : Hashers) (hw : HashersWf H) :
    (∀ raw : Bytes, ∃ cid, rawValueToJsonCid H raw = .ok cid ∧ verifyRawValue H cid raw = .ok ()) ∧
    (∀ v : JVal, ∃ cid, valueToJsonCid H v = .ok cid ∧ verifyValue H cid v = .ok () ∧
        verifyRawValue H cid (jsonBytes v) = .ok ()) := by
  have raw_case : ∀ raw : Bytes, ∃ cid, rawValueToJsonCid H raw = .ok cid ∧ verifyRawValue H cid raw = .ok () := by
    intro raw
    have hl : (H.blake3 raw).length ≤ 64 := by rw [hw.blake3_len]; decide
    refine ⟨_, rawValueToJsonCid_eq H raw hl, ?_⟩
    rw [C25_verify_raw_iff]
    exact ⟨_, tryFromStr_toStringV1 .Blake3_256 _ hl, rfl, rfl, .Blake3_256, rfl, rfl⟩
  refine ⟨raw_case, fun v => ?_⟩
  obtain ⟨cid, h1, h2⟩ := raw_case (jsonBytes v)
  exact ⟨cid, by rw [valueToJsonCid_eq_raw, h1], by rw [C25_verify_value_eq_raw]; exact h2, h2⟩

/-- The id of one value is rejected for a value with a different hash (in particular a different
serialisation can only be accepted on a BLAKE3 collision). -/
theorem C25_own_id_rejects_other (H : Hashers) (hw : HashersWf H) (v w : JVal) (cid : Bytes)
    (hcid : valueToJsonCid H v = .ok cid) (hne : H.blake3 (jsonBytes v) ≠ H.blake3 (jsonBytes w)) :
    verifyValue H cid w = .error .ValueMismatch := by
  have hl : (H.blake3 (jsonBytes v)).length ≤ 64 := by rw [hw.blake3_len]; decide
  rw [valueToJsonCid_eq_raw, rawValueToJsonCid_eq H _ hl] at hcid
  injection hcid with hcid
  subst hcid
  rw [C25_verify_value_eq_raw]
  rcases C25_verify_errors H _ (jsonBytes w) with ⟨e, he, _⟩ | ⟨c, hp, h⟩
  · rw [tryFromStr_toStringV1 .Blake3_256 _ hl] at he; cases he
  · rw [tryFromStr_toStringV1 .Blake3_256 _ hl] at hp
    injection hp with hp
    subst hp
    rcases h with ⟨hc, _⟩ | ⟨_, hno, _⟩ | ⟨_, alg, hcode, ⟨hd, _⟩ | ⟨_, he⟩⟩
    · exact absurd rfl hc
    · exact absurd rfl (hno .Blake3_256)
    · have : alg = .Blake3_256 := code_toU64_inj _ _ hcode
      subst this
      exact absurd hd hne
    · exact he

/-! ## Non-vacuity: concrete inputs meeting the hypotheses -/

-- two insertion orders (and a duplicate) with the same final map
example : ∀ k, finalMap [("b", .num 1), ("a", .num 2), ("b", .num 3)] k = finalMap [("a", .num 2), ("b", .num 3)] k := by
  intro k
  simp only [finalMap, List.reverse_cons, List.reverse_nil, List.nil_append, List.cons_append, lookup_cons', List.lookup_nil]
  by_cases h : k = "b" <;> simp [h]
example : JVal.mkObj [("b", .num 1), ("a", .num 2), ("b", .num 3)] = .obj [("a", .num 2), ("b", .num 3)] := by
  simp [JVal.mkObj, insertSorted, strLt]
example : [("b", JVal.num 1), ("a", JVal.num 2)].Perm [("a", .num 2), ("b", .num 1)] := List.Perm.swap _ _ _
example : ([("b", JVal.num 1), ("a", JVal.num 2)].map Prod.fst).Nodup := by decide
-- an id text that decodes to a JSON-codec CIDv1 (the crate's test vector for `json!(1)`, SHA2-256)
set_option maxRecDepth 100000 in
example : (Cid.tryFromStr (ascii "bagaaieranodle477gt6odhllqbhp6wr7k5d23jhkuixr2soadzjn3n4hlnfq")).toOption.map
    (fun c => (c.version, c.codec, c.hash.code, c.hash.digest.length)) = some (.V1, 0x200, 0x12, 32) := by decide
-- a CIDv0 text, and a truncated digest
set_option maxRecDepth 100000 in
example : (Cid.tryFromStr (ascii "QmdfTbBqBPQ7VNxZEYEj14VmRuZBkqFbiwReogJgS1zR1n")).toOption.map
    (fun c => (c.version, c.codec)) = some (.V0, 0x70) := by decide
set_option maxRecDepth 100000 in
example : (Cid.tryFromStr (Cid.newV1 JSON_CODEC ⟨0x12, List.replicate 20 7⟩).toStringV1).toOption.map
    (fun c => c.hash.digest.length) = some 20 := by decide
-- a CIDv1 within the bounds of `C25_text_roundtrip`
example : let c : Cid := ⟨.V1, 0x55, ⟨0xb220, List.replicate 64 9⟩⟩
    c.version = .V1 ∧ c.codec < 2 ^ 64 ∧ c.hash.code < 2 ^ 64 ∧ c.hash.digest.length ≤ 64 := by decide
-- an accepted pair and an id with one more digest byte for the same value (`C25_distinct_digest_rejected`,
-- `C25_truncated_digest_rejected`), with constant "hashers"
set_option maxRecDepth 100000 in
example : let H : Hashers := ⟨fun _ => List.replicate 32 0, fun _ => List.replicate 32 0⟩
    verifyRawValue H (Cid.newV1 JSON_CODEC ⟨0x1e, List.replicate 32 0⟩).toStringV1 [1, 2, 3] = .ok () ∧
    verifyRawValue H (Cid.newV1 JSON_CODEC ⟨0x1e, List.replicate 31 0⟩).toStringV1 [1, 2, 3] = .error .ValueMismatch ∧
    verifyRawValue H (Cid.newV1 JSON_CODEC ⟨0x13, List.replicate 32 0⟩).toStringV1 [1, 2, 3] = .error (.UnsupportedHashCode 0x13) ∧
    verifyRawValue H (Cid.newV1 0x55 ⟨0x1e, List.replicate 32 0⟩).toStringV1 [1, 2, 3] = .error (.UnsupportedCidCodec 0x55) := by
  decide
-- hashers with 32-byte digests exist
example : HashersWf ⟨fun _ => List.replicate 32 0, fun b => List.replicate 32 (UInt8.ofNat b.length)⟩ :=
  ⟨fun _ => by simp, fun _ => by simp⟩

end AquaProps.C25
