import Aqua.Exec.Streams
import Aqua.Exec.Run
import AquaProps.Lemmas.TraceFrame
/-!
# C13 — streams hold exactly the merged appends; stream folds visit each value once

Data-structure level theorems about the Lean replica of `Stream` / `ValuesMatrix` /
`RecursiveStreamCursor` (value_types/stream/*.rs), for EVERY stream content:

* `C13_add_value_adds_exactly_one`: an append adds exactly that one value (nothing duplicated, nothing
  lost), whichever generation of whichever source (previous / current / new) it goes to;
* `C13_size_limit_exact`: the append fails with `StreamSizeLimitExceeded` exactly when the stream then
  holds `STREAM_MAX_SIZE` values or more (the constant is regenerated from the Rust source);
* `C13_fold_start_visits_all`: when a fold starts, the generation slices handed to it contain every value
  of the stream exactly once, in the stream's order;
* `C13_cursor_exhausted_when_nothing_new`: if the fold body appends nothing the fold ends;
* `C13_recursive_append_visited_partial`: values appended (as new values) while the fold runs are handed
  out by the next round exactly once — under the explicit proviso that the stream has no empty "new"
  generation below the cursor.  The cursor counts ALL generations while the slices skip EMPTY ones, so
  without the proviso (or when a value is replayed into a previous/current generation below the cursor
  after the fold started) a value can be skipped: `C13_cursor_can_skip_witness` exhibits such a state.
-/
namespace AquaProps.C13
open Aqua Aqua.Exec Aqua.Json Aqua.Data AquaProps

/-! ## appends -/

theorem modify_flatten_perm (l : List (List ValueAggregate)) (g : Nat) (v : ValueAggregate) (h : g < l.length) :
    List.Perm (l.modify g (· ++ [v])).flatten (v :: l.flatten) := by
  induction l generalizing g with
  | nil => simp at h
  | cons x xs ih =>
    cases g with
    | zero =>
      simp only [List.modify_zero_cons, List.flatten_cons]
      -- (x ++ [v]) ++ rest ~ v :: (x ++ rest)
      have : List.Perm (x ++ [v] ++ xs.flatten) (v :: (x ++ xs.flatten)) := by
        rw [List.append_assoc]
        exact (List.perm_middle (l₁ := x) (a := v) (l₂ := xs.flatten))
      simpa using this
    | succ j =>
      simp only [List.modify_succ_cons, List.flatten_cons]
      have hj : j < xs.length := by simpa using h
      exact (List.Perm.append_left x (ih j hj)).trans (List.perm_middle (l₁ := x) (a := v) (l₂ := xs.flatten))

theorem padTo_flatten (l : List (List ValueAggregate)) (n : Nat) : (ValuesMatrix.padTo l n).flatten = l.flatten := by
  unfold ValuesMatrix.padTo
  simp

theorem padTo_length (l : List (List ValueAggregate)) (n : Nat) (h : l.length ≤ n) : (ValuesMatrix.padTo l n).length = n := by
  unfold ValuesMatrix.padTo
  simp; omega

/-- a matrix append adds exactly the one value -/
theorem matrix_add_perm {m m' : ValuesMatrix} {v : ValueAggregate} {g : Nat} (h : m.addValueToGeneration v g = .ok m') :
    List.Perm m'.all (v :: m.all) ∧ m'.size = m.size + 1 := by
  unfold ValuesMatrix.addValueToGeneration at h
  split at h
  · cases h
  · injection h with h; subst h
    refine ⟨?_, rfl⟩
    unfold ValuesMatrix.all
    simp only
    split
    · rename_i hge
      have hlen : g < (ValuesMatrix.padTo m.values (g + 1)).length := by
        rw [padTo_length _ _ (by omega)]; omega
      have := modify_flatten_perm (ValuesMatrix.padTo m.values (g + 1)) g v hlen
      rw [padTo_flatten] at this
      exact this
    · rename_i hlt
      exact modify_flatten_perm m.values g v (by omega)

theorem addToSource_perm {s s1 : Stream} {v : ValueAggregate} {g : Generation} (h : s.addToSource v g = .ok s1) :
    List.Perm s1.all (v :: s.all) ∧ s1.totalSize = s.totalSize + 1 := by
  unfold Stream.addToSource at h
  cases g with
  | previous i =>
    simp only at h
    obtain ⟨m, hm, h2⟩ := res_bind_ok h
    cases h2
    obtain ⟨hp, hs⟩ := matrix_add_perm hm
    refine ⟨?_, by simp [Stream.totalSize, hs]; omega⟩
    unfold Stream.all; simp only
    exact (List.Perm.append_right _ (List.Perm.append_right _ hp))
  | current i =>
    simp only at h
    obtain ⟨m, hm, h2⟩ := res_bind_ok h
    cases h2
    obtain ⟨hp, hs⟩ := matrix_add_perm hm
    refine ⟨?_, by simp [Stream.totalSize, hs]; omega⟩
    unfold Stream.all; simp only
    have := List.Perm.append_left s.prev.all (List.Perm.append_right s.new.all hp)
    refine (by simpa [List.append_assoc] using this : List.Perm _ _).trans ?_
    simpa [List.append_assoc] using (List.perm_middle (l₁ := s.prev.all) (a := v) (l₂ := s.cur.all ++ s.new.all))
  | new =>
    simp only at h
    obtain ⟨m, hm, h2⟩ := res_bind_ok h
    cases h2
    obtain ⟨hp, hs⟩ := matrix_add_perm (g := s.new.lastGenerationIdx) hm
    refine ⟨?_, by simp [Stream.totalSize, hs]; omega⟩
    unfold Stream.all; simp only
    have := List.Perm.append_left (s.prev.all ++ s.cur.all) hp
    refine this.trans ?_
    simpa [List.append_assoc] using (List.perm_middle (l₁ := s.prev.all ++ s.cur.all) (a := v) (l₂ := s.new.all))

theorem addToSource_not_error {s : Stream} {v : ValueAggregate} {g : Generation} {e : ExecErr} : s.addToSource v g ≠ .error e := by
  intro h
  unfold Stream.addToSource at h
  have aux : ∀ (m : ValuesMatrix) (i : Nat) (e : ExecErr), m.addValueToGeneration v i ≠ .error e := by
    intro m i e hm
    unfold ValuesMatrix.addValueToGeneration at hm
    split at hm <;> cases hm
  cases g with
  | previous i =>
    simp only at h
    cases hm : s.prev.addValueToGeneration v i with
    | ok m => simp [hm, Res.bind] at h
    | error e' => exact aux _ _ _ hm
    | panic p => simp [hm, Res.bind] at h
  | current i =>
    simp only at h
    cases hm : s.cur.addValueToGeneration v i with
    | ok m => simp [hm, Res.bind] at h
    | error e' => exact aux _ _ _ hm
    | panic p => simp [hm, Res.bind] at h
  | new =>
    simp only at h
    cases hm : s.new.addToLastGeneration v with
    | ok m => simp [hm, Res.bind] at h
    | error e' => exact aux _ _ _ hm
    | panic p => simp [hm, Res.bind] at h

/-- **An append adds exactly one value**: if `add_value` does not hit the size limit, the stream afterwards
holds the value just appended plus exactly what it held before (as a multiset), whatever generation and
source the value went to. -/
theorem C13_add_value_adds_exactly_one (s s' : Stream) (v : ValueAggregate) (g : Generation) (h : s.addValue v g = .ok s') :
    List.Perm s'.all (v :: s.all) ∧ s'.totalSize = s.totalSize + 1 := by
  unfold Stream.addValue at h
  obtain ⟨s1, h1, h2⟩ := res_bind_ok h
  split at h2
  · cases h2
  · cases h2; exact addToSource_perm h1

/-- **The size limit is exact**: an append that does not panic is accepted iff the stream then holds fewer
than `STREAM_MAX_SIZE` values, and is otherwise rejected with `StreamSizeLimitExceeded`. -/
theorem C13_size_limit_exact (s : Stream) (v : ValueAggregate) (g : Generation) (hnp : ∀ p, s.addValue v g ≠ .panic p) :
    ((∃ s', s.addValue v g = .ok s') ↔ s.totalSize + 1 < Gen.streamMaxSize) ∧
    (¬ s.totalSize + 1 < Gen.streamMaxSize → s.addValue v g = .error (.uncatchable .streamSizeLimitExceeded)) := by
  unfold Stream.addValue at hnp ⊢
  cases h1 : s.addToSource v g with
  | ok s1 =>
    have hs := (addToSource_perm h1).2
    simp only [Res.bind]
    constructor
    · constructor
      · rintro ⟨s', h⟩
        split at h
        · cases h
        · rename_i hlt; omega
      · intro hlt
        exact ⟨s1, by rw [if_neg (by omega)]⟩
    · intro hge
      rw [if_pos (by omega)]; rfl
  | error e => exact absurd h1 addToSource_not_error
  | panic p => exact absurd (by simp [h1, Res.bind]) (hnp p)

/-- the limit the theorem speaks about is the one in the Rust source (regenerated on every run) -/
theorem C13_limit_is_1024 : Gen.streamMaxSize = 1024 := by decide

/-! ## the recursive cursor -/

theorem filter_nonempty_flatten (l : List (List ValueAggregate)) : (l.filter (fun g => !g.isEmpty)).flatten = l.flatten := by
  induction l with
  | nil => rfl
  | cons x xs ih =>
    cases x with
    | nil => simpa using ih
    | cons a as => simp [ih]

/-- **A fold that starts sees every value exactly once**: the generation slices handed out by
`met_fold_start`, concatenated, are exactly the stream's values in the stream's own order (previous,
current, new; by generation). -/
theorem C13_fold_start_visits_all (s : Stream) :
    (match (metFoldStart s).1 with | some slices => slices.flatten | none => []) = s.all := by
  unfold metFoldStart cursorState
  simp only
  have hfl : (s.sliceIter {}).flatten = s.all := by
    unfold Stream.sliceIter Stream.all ValuesMatrix.sliceIter ValuesMatrix.all
    simp [filter_nonempty_flatten]
  by_cases he : (s.sliceIter {}).isEmpty
  · simp only [he, if_true]
    have : s.sliceIter {} = [] := List.isEmpty_iff.mp he
    rw [← hfl, this]; rfl
  · simp only [he]
    exact hfl

theorem filter_length_le (l : List (List ValueAggregate)) : (l.filter (fun g => !g.isEmpty)).length ≤ l.length :=
  List.length_filter_le _ _

theorem drop_filter_all (l : List (List ValueAggregate)) : (l.filter (fun g => !g.isEmpty)).drop l.length = [] :=
  List.drop_eq_nil_of_le (filter_length_le l)

/-- **The fold ends when its body appended nothing**: right after `met_fold_start`, with the stream
untouched, `met_iteration_end` reports exhaustion. -/
theorem C13_cursor_exhausted_when_nothing_new (s : Stream) (slices : List (List ValueAggregate))
    (h : (metFoldStart s).1 = some slices) :
    (metIterationEnd (metFoldStart s).2.1 (metFoldStart s).2.2).1 = none := by
  unfold metFoldStart at h ⊢
  simp only at h ⊢
  cases hc : cursorState {} s with
  | none => simp [hc] at h
  | some sl =>
    simp only [hc]
    unfold metIterationEnd cursorState Stream.sliceIter Stream.cursor ValuesMatrix.sliceIter ValuesMatrix.generationsCount
      ValuesMatrix.addNewEmptyGeneration
    simp only [drop_filter_all]
    have : (List.filter (fun g => !g.isEmpty) (s.new.values ++ [[]])).drop s.new.values.length = [] := by
      rw [List.filter_append]
      simp only [List.filter_cons, List.isEmpty_nil, Bool.not_true, Bool.false_eq_true, if_false, List.filter_nil, List.append_nil]
      exact drop_filter_all _
    simp [this, List.length_filter_le]

/-- no empty generation among the new values -/
def NewDense (s : Stream) : Prop := ∀ g ∈ s.new.values, g ≠ []

/-- **Values appended while the fold runs are handed out next** (partial: needs `NewDense`): if, after
`met_fold_start`, the body appended the values `vs ≠ []` as new values (they all land in the fresh last
generation), the next round consists of exactly one slice holding exactly `vs`. -/
theorem C13_recursive_append_visited_partial (s : Stream) (vs : List ValueAggregate) (hvs : vs ≠ []) (hd : NewDense s) :
    let c : StreamCursor := s.cursor
    let s' : Stream := { s with new := { s.new with values := s.new.values ++ [vs] } }
    (metIterationEnd c s').1 = some [vs] := by
  intro c s'
  unfold metIterationEnd cursorState Stream.sliceIter ValuesMatrix.sliceIter
  have hfilter : s.new.values.filter (fun g => !g.isEmpty) = s.new.values := by
    apply List.filter_eq_self.mpr
    intro g hg
    have := hd g hg
    cases g with
    | nil => exact absurd rfl this
    | cons a as => rfl
  have hvne : (!vs.isEmpty) = true := by
    cases vs with
    | nil => exact absurd rfl hvs
    | cons a as => rfl
  have hnew : ((s.new.values ++ [vs]).filter (fun g => !g.isEmpty)).drop s.new.values.length = [vs] := by
    rw [List.filter_append, hfilter]
    simp [hvne]
  have hp : List.drop c.prevStart (List.filter (fun g => !g.isEmpty) s'.prev.values) = [] := drop_filter_all s.prev.values
  have hcu : List.drop c.curStart (List.filter (fun g => !g.isEmpty) s'.cur.values) = [] := drop_filter_all s.cur.values
  have hn : List.drop c.newStart (List.filter (fun g => !g.isEmpty) s'.new.values) = [vs] := hnew
  simp only [hp, hcu, hn, List.nil_append]
  rfl

/-! ### the proviso is needed: the cursor counts all generations, the slices skip the empty ones -/

section Witness
def va (n : Int) (pos : Nat) : ValueAggregate := ⟨.num n, { peerPk := "p" }, pos, .literal⟩

/-- previous data announced generations 0 and 1; only the generation-1 value has been replayed when the
fold starts (generation 0 is still empty) -/
def sBefore : Stream := { prev := { values := [[], [va 1 1]], size := 1 } }
/-- later the generation-0 value is replayed into the previous data's generation 0 -/
def sAfter : Stream := { prev := { values := [[va 0 0], [va 1 1]], size := 2 }, new := { values := [[]] } }

-- the fold starts: it is handed the value 1 only; the cursor now stands after BOTH previous generations
example : (metFoldStart sBefore).2.1 = ⟨2, 0, 0⟩ := by decide
-- when the value 0 turns up in generation 0 (below the cursor) the next round does not see it
theorem C13_cursor_can_skip_witness : (metIterationEnd ⟨2, 0, 0⟩ sAfter).1 = none := by decide
end Witness

/-- The full reading: along an honest history every stream instance's content is in bijection with the
appends replayed or performed so far, and every value is folded over exactly once per peer.  The
data-structure theorems above give: appends add exactly one value; a starting fold sees everything once;
recursive appends are seen once; the fold terminates when nothing new arrives.  Not proved: that the
executor never replays a value into a generation below a running fold's cursor (the witness above shows
the data structure alone does not prevent a skip) — this is what the history oracle (visit counts per
unique value, canon contents at the folding peer) and the lock-step correspondence check on generated
histories with recursive folds. -/
def C13_full_note : Unit := ()

/-! ## stream maps -/

/-- `ap` into a stream map is `ap` into the underlying stream of the key-value object (`StreamMap::insert`) -/
theorem addStreamMapValue_eq (c : Ctx) (k : Lens.StreamMapKey) (v : ValueAggregate) (name : String) (g : Generation) (pos : Nat) :
    c.addStreamMapValue k v name g pos =
      c.addStreamValue (ValueAggregate.new (fromKeyValue k v.result) v.tetraplet v.tracePos v.provenance) name g pos := rfl

/-- the object `from_key_value` builds has exactly the two members `key` and `value` -/
theorem fromKeyValue_fields (k : Lens.StreamMapKey) (v : JVal) :
    fromKeyValue k v = .obj [("key", k.toJVal), ("value", v)] := by
  simp [fromKeyValue, JVal.mkObj, insertSorted, strLt, Gen.streamMapValueFieldName, Gen.streamMapKeyFieldName]

/-- a key in the form the executor produces it (`resolve_key_if_needed`: a string, an `i64`, or a `u64` beyond `i64`) -/
def KeyWf (k : Lens.StreamMapKey) : Prop := Lens.StreamMapKey.fromValue k.toJVal = some k

example : KeyWf (.str "k") := rfl
example : KeyWf (.i64 (-3)) := by unfold KeyWf; decide

/-- **An accepted `ap` into a map adds exactly one `{key, value}` entry**: the stream under the map afterwards holds
that one pair plus exactly what it held before (as a multiset); the pair is the object with the two members `key`
(the typed key as JSON) and `value` (the value's JSON), carrying tetraplet, position and provenance of the value;
and a later `canon` files the pair under exactly this key with exactly this value (`from_kvpair_owned`,
`get_value_from_obj`). -/
theorem C13_ap_map_adds_exactly_one_pair (s s' : Stream) (k : Lens.StreamMapKey) (v : ValueAggregate) (g : Generation)
    (h : s.addValue (ValueAggregate.new (fromKeyValue k v.result) v.tetraplet v.tracePos v.provenance) g = .ok s') :
    List.Perm s'.all ((ValueAggregate.new (fromKeyValue k v.result) v.tetraplet v.tracePos v.provenance) :: s.all) ∧
    s'.totalSize = s.totalSize + 1 ∧
    (ValueAggregate.new (fromKeyValue k v.result) v.tetraplet v.tracePos v.provenance).result = .obj [("key", k.toJVal), ("value", v.result)] ∧
    (KeyWf k → Lens.StreamMapKey.fromKvpairOwned (fromKeyValue k v.result) = some k) ∧
    Lens.getValueFromObj (fromKeyValue k v.result) = .ok v.result := by
  obtain ⟨h1, h2⟩ := C13_add_value_adds_exactly_one s s' _ g h
  refine ⟨h1, h2, ?_, ?_, ?_⟩
  · cases hp : v.provenance <;> simp [ValueAggregate.new, fromKeyValue_fields]
  · intro hk
    rw [fromKeyValue_fields]
    simp [Lens.StreamMapKey.fromKvpairOwned, JVal.getField, Lens.keyFieldName, Gen.streamMapKeyFieldName]
    exact hk
  · rw [fromKeyValue_fields]
    simp [Lens.getValueFromObj, JVal.getField, Lens.valueFieldName, Gen.streamMapValueFieldName]

end AquaProps.C13
