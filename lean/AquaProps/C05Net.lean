import AquaProps.C05
import AquaProps.C06Net
import AquaProps.C19Net
/-!
# C05 along whole histories (`Aqua.Net`)

`C05.lean` proves, for one call step with arbitrary inputs, that an executed, failed or own-pending call is
not requested again, and for one run that the requests are appended one by one under fresh consecutive ids.
Here the bookkeeping of honest hosts (`Aqua.Net.absorb`) is added: in every state reachable in the network
model (any script, services and schedule of deliveries, duplicated deliveries and late or batched answers)

* the requests a host still has to answer are a sub-sequence of the requests the runs of that peer have
  issued so far, in issue order (`C05_network_pending_issued`): nothing is pending that no run asked for;
* hence no request is pending twice and no two pending requests share an id
  (`C05_network_pending_ids_increasing`), and every pending request names a call addressed to that very
  peer (`C05_network_pending_local`);
* a batch of results handed to a run answers requests that were pending before the run, and none of the
  answered requests is pending afterwards unless a later run issues a new one — which then carries a larger
  id (`C05_network_answered_not_pending`): a result is handed back at most once per issued id.

What stays open at this level is the alignment premise named in `C05.lean` (the state the trace handler hands
to an instruction instance in a later run is the state recorded for that instance earlier).
-/
namespace AquaProps.C05
open Aqua Aqua.Exec Aqua.Air Aqua.Net AquaProps AquaProps.NetLift

/-- everything the runs of `q` have handed to `q`'s host so far, in issue order -/
def issued (st : NetSt) (q : String) : List (Nat × CallRequest) := (runsOf st q).flatMap Run.requests

theorem runsOf_absorb (st : NetSt) (r : Run) (q : String) :
    runsOf (absorb st r) q = runsOf st q ++ (if r.peer == q then [r] else []) := by
  have hruns : (absorb st r).runs = st.runs ++ [r] := rfl
  unfold runsOf
  rw [hruns, List.filter_append]
  simp only [List.filter_cons, List.filter_nil]

theorem issued_absorb_self (st : NetSt) (r : Run) : issued (absorb st r) r.peer = issued st r.peer ++ r.requests := by
  unfold issued
  rw [runsOf_absorb]
  simp

theorem issued_absorb_other (st : NetSt) (r : Run) (q : String) (h : r.peer ≠ q) : issued (absorb st r) q = issued st q := by
  unfold issued
  rw [runsOf_absorb]
  have : (r.peer == q) = false := by simp [h]
  simp [this]

theorem pending_absorb_self (st : NetSt) (r : Run) :
    (peerSt (absorb st r) r.peer).pending =
      (peerSt st r.peer).pending.filter (fun x => !(r.results.any fun kv => kv.1 == toString x.1)) ++ r.requests := by
  show ((lookup (upsert st.peers r.peer _) r.peer).getD {}).pending = _
  rw [peerSt_upsert_self]

theorem pending_absorb_other (st : NetSt) (r : Run) (q : String) (h : r.peer ≠ q) :
    (peerSt (absorb st r) q).pending = (peerSt st q).pending := by
  show ((lookup (upsert st.peers r.peer _) q).getD {}).pending = _
  rw [peerSt_upsert_other _ _ _ _ (fun e => h e.symm)]
  rfl

/-- **Nothing is pending that no run asked for**: the host's pending list is a sub-sequence of the issued requests. -/
theorem C05_network_pending_issued (env : Env) (svc : Services) (P : Particle) (st : NetSt)
    (h : Reachable env svc P st) (q : String) : List.Sublist (peerSt st q).pending (issued st q) := by
  revert q
  refine reachable_induction (env := env) (svc := svc) (P := P)
    (fun st => ∀ q, List.Sublist (peerSt st q).pending (issued st q)) ?_ ?_ ?_ h
  · intro q; exact List.Sublist.refl _
  · intro st w _ hq q; exact hq q
  · intro st r hq q
    by_cases hpq : r.peer = q
    · subst hpq
      rw [pending_absorb_self, issued_absorb_self]
      exact List.Sublist.append (List.Sublist.trans List.filter_sublist (hq r.peer)) (List.Sublist.refl _)
    · rw [pending_absorb_other _ _ _ hpq, issued_absorb_other _ _ _ hpq]
      exact hq q

/-- **No request is pending twice**: the ids of the requests a host still has to answer are strictly increasing. -/
theorem C05_network_pending_ids_increasing (env : Env) (svc : Services) (P : Particle) (st : NetSt)
    (h : Reachable env svc P st) (q : String) : ((peerSt st q).pending.map (·.1)).Pairwise (· < ·) := by
  have hsub := (C05_network_pending_issued env svc P st h q).map (·.1)
  have hinc := C06.C06_network_ids_fresh env svc P st h q
  have : (issued st q).map (·.1) = (runsOf st q).flatMap fun r => r.requests.map (·.1) := by
    unfold issued; rw [List.map_flatMap]
  rw [this] at hsub
  exact hinc.sublist hsub

/-- **Every pending request names a call addressed to the peer whose host holds it.** -/
theorem C05_network_pending_local (env : Env) (svc : Services) (P : Particle) (st : NetSt)
    (h : Reachable env svc P st) (q : String) : ∀ x ∈ (peerSt st q).pending, x.2.forPeer = q := by
  intro x hx
  have hi := (C05_network_pending_issued env svc P st h q).subset hx
  unfold issued at hi
  obtain ⟨r, hr, hxr⟩ := List.mem_flatMap.mp hi
  have hrq : r.peer = q := by simpa using (List.mem_filter.mp hr).2
  rw [← hrq]
  exact C19.C19_network_requests_local env svc P st h r (List.mem_filter.mp hr).1 x hxr

/-- **A result is handed back at most once per issued id**: after a run of `q` that was given results, a request
that is still (or again) pending at `q` either was not answered by that batch, or was issued by this very run. -/
theorem C05_network_answered_not_pending (st : NetSt) (r : Run) :
    ∀ x ∈ (peerSt (absorb st r) r.peer).pending,
      (r.results.any fun kv => kv.1 == toString x.1) = false ∨ x ∈ r.requests := by
  intro x hx
  rw [pending_absorb_self] at hx
  rcases List.mem_append.mp hx with hx | hx
  · left
    have := (List.mem_filter.mp hx).2
    simpa using this
  · exact .inr hx

/-- the results of an `answer` event are exactly answers to requests that were pending (the model's hosts never
invent a result) -/
theorem C05_network_answers_pending (env : Env) (svc : Services) (P : Particle) (st st' : NetSt) (q : String) (ids : List Nat)
    (hs : step env svc P st (.answer q ids) = some st') :
    ∃ chosen, List.Sublist chosen (peerSt st q).pending ∧ chosen ≠ [] ∧
      st' = absorb st (invoke env P st q {} (chosen.map fun x => (toString x.1, svc q x.2))) := by
  simp only [step] at hs
  split at hs
  · cases hs
  · rename_i hne
    injection hs with hs
    refine ⟨_, List.filter_sublist, ?_, hs.symm⟩
    intro hnil
    apply hne
    rw [hnil]; rfl

/-- non-vacuity: after the first run of any particle, the pending list of the init peer is what that run requested -/
example (env : Env) (svc : Services) (P : Particle) :
    ∃ st, Reachable env svc P st ∧ (peerSt st P.initPeer).pending = issued st P.initPeer :=
  ⟨_, ⟨[.start], rfl⟩, by
    show (peerSt (absorb {} (invoke env P {} P.initPeer {} [])) (invoke env P {} P.initPeer {} []).peer).pending = _
    rw [pending_absorb_self]
    show _ = issued (absorb {} (invoke env P {} P.initPeer {} [])) (invoke env P {} P.initPeer {} []).peer
    rw [issued_absorb_self]
    rfl⟩

end AquaProps.C05
