import AquaProps.Lemmas.TraceParWF
import AquaProps.Lemmas.TraceEff
import AquaProps.Lemmas.TraceFoldBridge
/-!
# C10 — produced traces are structurally well formed

`Aqua.Trace.wfTrace` (file `Aqua/Trace/WF.lean`) is the executable definition of well-formedness (DESIGN.md
Appendix A), split into the clauses `wfPar`, `wfFold`, `wfNesting`, `wfValuePos`, `wfGenerations`; the Rust oracle
`harness/src/wf.rs` is its transcription and both are compared on every produced and mutated trace.

The theorems below are about the trace-handler **model** (`Aqua/Trace/Handler.lean`, a replica of
`air-trace-handler`, tied to the real crate by the operation-sequence correspondence of `props/traceops.rs`
and `props/c10.rs`), for **all** previous/current traces — the builders only look at the result trace — and
all operation sequences of the stated shape (`HOp` = one call of the `TraceHandler` API).
-/
namespace AquaProps.C10
open Aqua Aqua.Data Aqua.Trace

/-! ## par -/

theorem parInv_fromTrace (prev cur : Trace) : ParInv (TraceHandler.fromTrace prev cur) :=
  ⟨fun _ hg => by simp [TraceHandler.fromTrace] at hg,
   fun _ _ hf => by simp [TraceHandler.fromTrace, TraceHandler.fsm, lookupFsm] at hf⟩

/-- **C10, par clause, full strength.**  For all previous and current traces (also malformed ones) and every
operation sequence in which pars are well bracketed (`WB`: `meetParStart`, left subgraph, `meetParSubgraphEnd
left`, right subgraph, `meetParSubgraphEnd right`; fold operations, `update_generation`, merger calls are
unconstrained and may interleave with par boundaries, as `next` makes them do): if every call succeeds, the
result trace satisfies `wfPar` — each `Par(l, r)` is followed by exactly `l` entries forming its left part and `r`
entries forming its right part, recursively, and the reading ends exactly at the end of the trace.
(`u32` side condition: `ParBuilder::build` casts the sizes with `as u32`.) -/
theorem C10_par_wf (prev cur : Trace) (ops : List HOp) (h' : TraceHandler) (wb : WB ops)
    (run : runOps ops (TraceHandler.fromTrace prev cur) = some h') (small : h'.tr.length ≤ u32Max) :
    wfPar h'.tr = true := by
  obtain ⟨_, _, seg, hseg, hf⟩ := run_wb wb (parInv_fromTrace prev cur) run
  apply wfPar_of_forest
  have : (TraceHandler.fromTrace prev cur).sizes = [] := rfl
  rw [this, List.nil_append] at hseg
  show ForestS h'.sizes
  rw [hseg]; exact hf small

/-- the executable clause `wfPar` is exactly the inductive forest reading of the `(left, right)` sizes -/
theorem C10_wfPar_iff_forest (t : Trace) : wfPar t = true ↔ ForestS (t.map parSizes) := wfPar_iff_forest t

/-- the same from any handler state that satisfies the reservation invariant: the run appends a forest -/
theorem C10_par_wf_segment (h h' : TraceHandler) (ops : List HOp) (inv : ParInv h) (wb : WB ops)
    (run : runOps ops h = some h') (small : h'.tr.length ≤ u32Max) :
    ParInv h' ∧ h'.parStack = h.parStack ∧ ∃ seg, h'.sizes = h.sizes ++ seg ∧ ForestS seg := by
  obtain ⟨g, st, seg, hseg, hf⟩ := run_wb wb inv run
  exact ⟨g, st, seg, hseg, hf small⟩

/-- **One par (`StateInserter` + `ParBuilder::track`).**  For a par executed as `meetParStart; ⟨left ops⟩;
meetParSubgraphEnd left; ⟨right ops⟩; meetParSubgraphEnd right` with well-bracketed subgraphs, if all calls
succeed: the position reserved by `meetParStart` holds `Par(l, r)` with `l` = the number of states pushed by the
left ops and `r` = by the right ops, the trace is as long as before the closing call, and every other position
below the reserved one keeps its sizes (nothing else was clobbered). -/
theorem C10_par_block (h h1 h2 h3 h4 h5 : TraceHandler) (l r : List HOp) (inv : ParInv h) (wl : WB l) (wr : WB r)
    (e1 : h.meetParStart = .ok h1) (e2 : runOps l h1 = some h2) (e3 : h2.meetParSubgraphEnd .left = .ok h3)
    (e4 : runOps r h3 = some h4) (e5 : h4.meetParSubgraphEnd .right = .ok h5) (small : h5.tr.length ≤ u32Max) :
    h5.tr[h.tr.length]? = some (.par (h2.tr.length - h1.tr.length) (h4.tr.length - h3.tr.length)) ∧
      h5.tr.length = h4.tr.length ∧ h1.tr.length = h.tr.length + 1 ∧ h3.tr = h2.tr ∧
      h5.sizes.take h.tr.length = h.sizes ∧ ParInv h5 ∧ h5.parStack = h.parStack := by
  have L : ParInv h1 → ParInv h2 ∧ h2.parStack = h1.parStack ∧ ∃ segL, h2.sizes = h1.sizes ++ segL := by
    intro g1; obtain ⟨a, b, s, c, _⟩ := run_wb wl g1 e2; exact ⟨a, b, s, c⟩
  have R : ParInv h3 → ParInv h4 ∧ h4.parStack = h3.parStack ∧ ∃ segR, h4.sizes = h3.sizes ++ segR := by
    intro g3; obtain ⟨a, b, s, c, _⟩ := run_wb wr g3 e4; exact ⟨a, b, s, c⟩
  obtain ⟨g1, g3, g5, hst5, ht1, ht3, ht5, hszgen⟩ := par_block inv e1 L e3 R e5
  obtain ⟨_, _, segL, hsz2, _⟩ := run_wb wl g1 e2
  obtain ⟨_, _, segR, hsz4, _⟩ := run_wb wr g3 e4
  have hsz5 := hszgen segL segR hsz2 hsz4
  have a1 : h1.tr.length = h.tr.length + 1 := by rw [ht1]; simp
  have a2 : h2.tr.length = h1.tr.length + segL.length := by
    rw [← sizes_length, hsz2, List.length_append, sizes_length]
  have a4 : h4.tr.length = h3.tr.length + segR.length := by
    rw [← sizes_length, hsz4, List.length_append, sizes_length]
  have a5 : h5.tr.length = h4.tr.length := by rw [ht5]; simp [setAt]
  have hlt : h.tr.length < h4.tr.length := by rw [a4, ht3, a2, a1]; omega
  refine ⟨?_, a5, a1, ht3, ?_, g5, hst5⟩
  · rw [ht5]
    unfold setAt
    rw [List.getElem?_set_self hlt]
    have t1 : truncU32 (h2.tr.length - h1.tr.length) = h2.tr.length - h1.tr.length := by
      unfold truncU32; exact Nat.mod_eq_of_lt (by rw [ht3] at a4; omega)
    have t2 : truncU32 (h4.tr.length - h3.tr.length) = h4.tr.length - h3.tr.length := by
      unfold truncU32; exact Nat.mod_eq_of_lt (by omega)
    rw [t1, t2]
  · rw [hsz5, ← sizes_length h]; simp

/-! ## the result trace only grows; reserved positions -/

/-- **Positions are stable.**  One call of the trace-handler API appends at most one state to the result trace and
rewrites at most one existing position: the position reserved (by `StateInserter`) for the par whose right
subgraph ends / for the fold that ends, or the position named by `update_generation`.  Every other existing
position keeps its state. -/
theorem C10_positions_stable (h h' : TraceHandler) (op : HOp) (e : op.apply h = some h') :
    ∃ t0 suffix, h'.tr = t0 ++ suffix ∧ t0.length = h.tr.length ∧ suffix.length ≤ 1 ∧
      ∀ i, op.rewrites h ≠ some i → t0[i]? = h.tr[i]? :=
  trace_eff op e

/-- the result trace never shrinks along an operation sequence -/
theorem C10_result_trace_only_grows (ops : List HOp) (h h' : TraceHandler) (e : runOps ops h = some h') :
    h.tr.length ≤ h'.tr.length := by
  induction ops generalizing h with
  | nil => simp only [runOps, Option.some.injEq] at e; subst e; exact Nat.le_refl _
  | cons op rest ih =>
    obtain ⟨h1, e1, e2⟩ := runOps_cons e
    obtain ⟨t0, suffix, ht, hl, _, _⟩ := trace_eff op e1
    have : h.tr.length ≤ h1.tr.length := by rw [ht, List.length_append, hl]; omega
    exact Nat.le_trans this (ih h1 e2)

/-- `update_generation` rewrites only the generation of an `Ap` / stream `Call` state (and fails on anything else) -/
theorem C10_update_generation_spec (h h' : TraceHandler) (p g : Nat) (e : h.updateGeneration p g = .ok h') :
    (∃ gens, h.tr[p]? = some (.ap gens) ∧ h'.tr = h.tr.set p (.ap [g])) ∨
    (∃ cid g0, h.tr[p]? = some (.call (.executed (.stream cid g0))) ∧
      h'.tr = h.tr.set p (.call (.executed (.stream cid g)))) :=
  (updateGeneration_eff e).2.2

/-! ## generations -/

/-- a run of `update_generation` calls, as `Stream::compactify` issues them -/
def updOps (upds : List (Nat × Nat)) : List HOp := upds.map fun (p, g) => .updateGeneration p g

theorem upd_invariant (upds : List (Nat × Nat)) (hstub : ∀ u ∈ upds, u.2 ≠ generationStub) :
    ∀ (h h' : TraceHandler), runOps (updOps upds) h = some h' →
      h'.tr.length = h.tr.length ∧
      ∀ i s', h'.tr[i]? = some s' → wfGenerationState s' = true ∨
        (h.tr[i]? = some s' ∧ ∀ g, (i, g) ∉ upds) := by
  induction upds with
  | nil =>
    intro h h' e
    simp only [updOps, List.map_nil, runOps, Option.some.injEq] at e; subst e
    exact ⟨rfl, fun i s' hs => .inr ⟨hs, by simp⟩⟩
  | cons u rest ih =>
    intro h h' e
    obtain ⟨p, g⟩ := u
    obtain ⟨h1, e1, e2⟩ := runOps_cons (op := .updateGeneration p g) (rest := updOps rest) e
    simp only [HOp.apply, resOk_eq_some] at e1
    have hg : g ≠ generationStub := hstub (p, g) (by simp)
    obtain ⟨hlen, hrest⟩ := ih (fun u hu => hstub u (by simp [hu])) h1 h' e2
    have hcase := (updateGeneration_eff e1).2.2
    have h1len : h1.tr.length = h.tr.length := by
      rcases hcase with ⟨_, _, ht⟩ | ⟨_, _, _, ht⟩ <;> rw [ht] <;> simp [setAt]
    refine ⟨by rw [hlen, h1len], ?_⟩
    intro i s' hs
    rcases hrest i s' hs with hok | ⟨h1i, hni⟩
    · exact .inl hok
    · by_cases hip : p = i
      · subst hip
        left
        have hlt : p < h.tr.length := by
          rw [← h1len]; rcases List.getElem?_eq_some_iff.mp h1i with ⟨hh, _⟩; exact hh
        rcases hcase with ⟨_, _, ht⟩ | ⟨_, _, _, ht⟩
        · rw [ht] at h1i; unfold setAt at h1i
          rw [List.getElem?_set_self hlt] at h1i
          simp only [Option.some.injEq] at h1i; subst h1i
          simpa [wfGenerationState] using hg
        · rw [ht] at h1i; unfold setAt at h1i
          rw [List.getElem?_set_self hlt] at h1i
          simp only [Option.some.injEq] at h1i; subst h1i
          simpa [wfGenerationState] using hg
      · right
        refine ⟨?_, ?_⟩
        · rcases hcase with ⟨_, _, ht⟩ | ⟨_, _, _, ht⟩ <;> rw [ht] at h1i <;> unfold setAt at h1i <;>
            rw [List.getElem?_set_ne hip] at h1i <;> exact h1i
        · intro g' hmem
          rcases List.mem_cons.mp hmem with heq | hmem
          · simp only [Prod.mk.injEq] at heq; exact hip heq.1.symm
          · exact hni g' hmem

/-- **C10, generations (what the trace handler guarantees).**  `update_generation p g` rewrites exactly the
generation at `p` (`C10_update_generation_spec`, `C10_positions_stable`).  Hence: if, at the end of a run,
`compactify` issues `update_generation` with a real generation (≠ `0xCAFEBABE`) for every entry that does not yet
carry exactly one real generation (in particular for every stream value that was pushed with the placeholder),
then no placeholder remains and every `Ap` has exactly one generation: `wfGenerations` holds.
Partial: that `Stream::compactify` does visit every stream value of the run (every `ValueAggregate` of every
stream, global and `new`-scoped, keeps its trace position) and that its generations are below the placeholder is a
fact about the executor's stream bookkeeping, outside `Aqua/Trace/Handler.lean` (streams are not yet in
`Aqua/Exec`); it is the hypothesis `cover` here and is searched by the oracle on every produced data. -/
theorem C10_no_stub_generation_partial (h h' : TraceHandler) (upds : List (Nat × Nat))
    (real : ∀ u ∈ upds, u.2 ≠ generationStub)
    (cover : ∀ i s, h.tr[i]? = some s → wfGenerationState s = false → ∃ g, (i, g) ∈ upds)
    (run : runOps (updOps upds) h = some h') : wfGenerations h'.tr = true := by
  obtain ⟨_, hinv⟩ := upd_invariant upds real h h' run
  unfold wfGenerations
  rw [List.all_eq_true]
  intro s hs
  obtain ⟨i, hi, rfl⟩ := List.mem_iff_getElem.mp hs
  have hsome : h'.tr[i]? = some h'.tr[i] := List.getElem?_eq_getElem hi
  rcases hinv i _ hsome with hok | ⟨horig, hnot⟩
  · exact hok
  · cases hw : wfGenerationState h'.tr[i] with
    | true => rfl
    | false =>
      obtain ⟨g, hg⟩ := cover i _ horig hw
      exact absurd hg (hnot g)

/-! ## fold -/

/-- **C10, fold clause (tiling), partial.**  For every handler state and a fold driven as the executor drives a
stream fold — `meet_fold_start id`; a body under the call discipline `foldStep` (per batch:
`meet_iteration_start`, arbitrary operations of other instructions — pars, calls, other folds, nested to any
depth —, `meet_iteration_end` directly followed by the next `meet_iteration_start` or by the first
`meet_back_iterator`, further `meet_back_iterator`s with arbitrary operations in between, and
`meet_generation_end` at **any** point of the batch = early exit on a catchable error, closed by
`SubTraceLoreCtorQueue::finish`); `meet_fold_end id` — if all calls succeed then

* the position reserved by `meet_fold_start` holds `Fold(lore)` and the trace is as long as before `meet_fold_end`;
* `lore` is the concatenation of the batches `lbs` (one per `meet_generation_end`); each batch is non-empty and is
  laid out `B₁ … B_k A_k … A₁` exactly from where the previous one ended, the first at the position after the
  fold entry, the last ending at the end of the trace (`BatchesTile`): the `2n` ranges tile the region after
  the fold entry without gap or overlap;
* entry `i` of batch `b` has the value position passed to the `i`-th `meet_iteration_start` of that batch and its
  before-part begins at the result-trace length at that call (`lg`): so `value_pos < begin B` as soon as the
  executor passes positions of already pushed states;
* if moreover the batches are the generation runs of the final trace (`GroupsGen`, an executor-side fact), the
  executable clause `wfFoldAt` accepts the entry.

Partial with respect to `C10_full`: the discipline and `GroupsGen` are hypotheses about the executor (stream folds
are not yet in `Aqua/Exec`); the frame nesting clause `wfNesting` is not proved. -/
theorem C10_fold_wf_partial (id : Nat) (h0 h1 h2 h3 : TraceHandler) (body : List HOp) (lg : FoldLog)
    (e1 : h0.meetFoldStart id = .ok h1) (e2 : runFold id .idle body h1 ([], []) = some (.idle, h2, lg))
    (e3 : h2.meetFoldEnd id = .ok h3) (small : h3.tr.length ≤ u32Max) :
    ∃ lbs : List (List FoldSubTraceLore),
      h3.tr[h0.tr.length]? = some (.fold lbs.flatten) ∧ h3.tr.length = h2.tr.length ∧
      BatchesTile (h0.tr.length + 1) lbs h3.tr.length ∧
      lbs.map (List.map loreKey) = lg.1 ∧
      (GroupsGen h3.tr none lbs → wfFoldAt h3.tr h0.tr.length lbs.flatten = true) := by
  obtain ⟨lbs, hfold, htile, hkeys, _, hlen, _⟩ := fold_block e1 e2 e3 small
  exact ⟨lbs, hfold, hlen, htile, hkeys, fun hg => wfFoldAt_of_batches htile hg (Nat.le_refl _)⟩

/-- the fold body run under the discipline is an ordinary run of the same operations: the par theorem applies to it -/
theorem C10_fold_body_is_run (id : Nat) (ph ph' : Phase) (body : List HOp) (h h' : TraceHandler) (lg lg' : FoldLog)
    (e : runFold id ph body h lg = some (ph', h', lg')) : runOps body h = some h' :=
  runFold_runOps e

/-- **Value positions** of a fold driven as above: every lore entry's `(value_pos, begin of its before-part)` is
the `(value_pos, result-trace length)` of one `meet_iteration_start`; so if the executor only passes positions of
states it has already pushed, `value_pos < begin B` (first half of `wfValuePos`; that the position holds an `Ap`
or a stream `Call` is the executor's pairing of stream values with trace positions). -/
theorem C10_value_pos_before_partial (id : Nat) (h0 h1 h2 h3 : TraceHandler) (body : List HOp) (lg : FoldLog)
    (e1 : h0.meetFoldStart id = .ok h1) (e2 : runFold id .idle body h1 ([], []) = some (.idle, h2, lg))
    (e3 : h2.meetFoldEnd id = .ok h3) (small : h3.tr.length ≤ u32Max)
    (pushed : ∀ grp ∈ lg.1, ∀ k ∈ grp, k.1 < k.2) :
    ∃ lore, h3.tr[h0.tr.length]? = some (.fold lore) ∧ ∀ l ∈ lore, (loreKey l).1 < (loreKey l).2 := by
  obtain ⟨lbs, hfold, _, hkeys, _, _, _⟩ := fold_block e1 e2 e3 small
  refine ⟨lbs.flatten, hfold, ?_⟩
  intro l hl
  obtain ⟨lb, hlb, hl'⟩ := List.mem_flatten.mp hl
  have : lb.map loreKey ∈ lg.1 := by rw [← hkeys]; exact List.mem_map_of_mem hlb
  exact pushed _ this _ (List.mem_map_of_mem hl')

/-! ## full statement -/

/-- **C10 at full strength**, for the relation `ExecutorRun prev cur ops` = "a completed run of the executor on
data with traces `prev`, `cur` issues exactly the trace-handler calls `ops`" (to be instantiated with the
instrumented run of the executor model once stream folds are in `Aqua/Exec`): every result trace is well formed.
Proved of it: the `wfPar` clause (`C10_par_wf`; the only executor fact used is that pars are bracketed, which
`par.rs` does also on catchable errors).  Partial: `wfFold` (`C10_fold_wf_partial`: under the call discipline
`foldStep` and the generation grouping `GroupsGen`), `wfValuePos` (`C10_value_pos_before_partial`: the `<` half),
`wfGenerations` (`C10_no_stub_generation_partial`: under the coverage of `compactify`).  Not proved: `wfNesting`
(frames are units of the par forest; fold regions stay inside their par part) — searched by the oracle on every
produced data and on the result traces of handler programs. -/
def C10_full (ExecutorRun : Trace → Trace → List HOp → Prop) : Prop :=
  ∀ (prev cur : Trace) (ops : List HOp) (h' : TraceHandler),
    ExecutorRun prev cur ops → runOps ops (TraceHandler.fromTrace prev cur) = some h' →
    h'.tr.length ≤ u32Max → wfTrace h'.tr = true

/-! ## non-vacuity -/

/-- `(par (call) (par (ap) (canon)))`-like sequence with a fold start/end and a generation update in between -/
def exOps : List HOp :=
  [.parStart, .callStart, .callEnd (.executed (.scalar "c1")), .parEnd .left,
   .parStart, .apStart, .apEnd [generationStub], .parEnd .left, .foldStart 1, .foldEnd 1, .canonStart,
   .canonEnd (.executed "cn"), .parEnd .right, .parEnd .right, .updateGeneration 3 0]

example : WB exOps := by
  unfold exOps
  refine .par [_, _] [_, _, _, _, _, _, _, _, _] [_] (.simple _ _ rfl (.simple _ _ rfl .nil)) ?_
    (.simple _ _ rfl .nil)
  exact .par [_, _] [_, _, _, _] [] (.simple _ _ rfl (.simple _ _ rfl .nil))
    (.simple _ _ rfl (.simple _ _ rfl (.simple _ _ rfl (.simple _ _ rfl .nil)))) .nil

example : (runOps exOps (TraceHandler.fromTrace [] [])).map (·.tr) =
    some [.par 1 4, .call (.executed (.scalar "c1")), .par 1 2, .ap [0], .fold [], .canon (.executed "cn")] := by
  decide

/-- two stream values of generation 0, a fold over them: `B₁ = [call]`, `B₂ = [call]`, `A₂ = [canon]`, `A₁ = []` -/
def exFoldBody : List HOp :=
  [.iterStart 1 0, .callStart, .callEnd (.executed (.scalar "b1")), .iterEnd 1,
   .iterStart 1 1, .callStart, .callEnd (.executed (.scalar "b2")), .iterEnd 1,
   .backIter 1, .canonStart, .canonEnd (.executed "a2"), .backIter 1, .genEnd 1]

def exFoldPrefix : List HOp := [.apStart, .apEnd [generationStub], .apStart, .apEnd [generationStub]]

def exH0 : Option TraceHandler := runOps exFoldPrefix (TraceHandler.fromTrace [] [])

/-- the hypotheses of `C10_fold_wf_partial` are met by a concrete run … -/
example : (exH0.bind fun h0 => (resOk (h0.meetFoldStart 1)).bind fun h1 =>
      (runFold 1 .idle exFoldBody h1 ([], [])).map fun r => (r.1, r.2.2)) =
    some (.idle, ([[(0, 3), (1, 4)]], [])) := by decide

/-- … and by an early exit: `meet_generation_end` right after the second iteration started -/
example : (exH0.bind fun h0 => (resOk (h0.meetFoldStart 1)).bind fun h1 =>
      (runFold 1 .idle (exFoldBody.take 7 ++ [.genEnd 1]) h1 ([], [])).map fun r => (r.1, r.2.2)) =
    some (.idle, ([[(0, 3), (1, 4)]], [])) := by decide

/-- the whole run (fold, then `compactify`'s two updates): the result trace is well formed, every clause -/
example : ((runOps (exFoldPrefix ++ [.foldStart 1] ++ exFoldBody ++ [.foldEnd 1] ++ updOps [(0, 0), (1, 0)])
      (TraceHandler.fromTrace [] [])).map fun h => (h.tr, wfTrace h.tr)) =
    some ([.ap [0], .ap [0],
           .fold [⟨0, [⟨3, 1⟩, ⟨6, 0⟩]⟩, ⟨1, [⟨4, 1⟩, ⟨5, 1⟩]⟩],
           .call (.executed (.scalar "b1")), .call (.executed (.scalar "b2")), .canon (.executed "a2")], true) := by
  decide

/-- the early exit leaves `B₂ = [call]` closed by `finish`, empty after-parts at the end: still well formed -/
example : ((runOps (exFoldPrefix ++ [.foldStart 1] ++ exFoldBody.take 7 ++ [.genEnd 1, .foldEnd 1] ++
        updOps [(0, 0), (1, 0)]) (TraceHandler.fromTrace [] [])).map fun h => (h.tr, wfTrace h.tr)) =
    some ([.ap [0], .ap [0],
           .fold [⟨0, [⟨3, 1⟩, ⟨5, 0⟩]⟩, ⟨1, [⟨4, 1⟩, ⟨5, 0⟩]⟩],
           .call (.executed (.scalar "b1")), .call (.executed (.scalar "b2"))], true) := by
  decide

/-- hypotheses of `C10_no_stub_generation_partial`: both placeholders are covered, none remains -/
example : (exH0.map fun h => (wfGenerations h.tr,
      ((runOps (updOps [(0, 0), (1, 0)]) h).map fun h' => wfGenerations h'.tr))) = some (false, some true) := by
  decide

/-- the definition rejects what it must: a par one too long, a lore begin off by one, a placeholder generation -/
example : wfTrace [.par 1 1, .call (.executed (.scalar "x"))] = false := by decide
example : wfTrace [.ap [0], .fold [⟨0, [⟨3, 1⟩, ⟨3, 0⟩]⟩], .canon (.executed "c")] = false := by decide
example : wfTrace [.ap [0], .fold [⟨0, [⟨2, 1⟩, ⟨3, 0⟩]⟩], .canon (.executed "c")] = true := by decide
example : wfTrace [.ap [generationStub]] = false := by decide

end AquaProps.C10
