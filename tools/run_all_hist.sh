#!/bin/sh
# usage: run_all_hist.sh <tier> <seed> : runs every history oracle of the harness in parallel and summarises
TIER=${1:-quick}; SEED=${2:-1}
for p in C02 C03 C04 C05 C06 C07 C09 C10 C19 C20; do
  ( /verif/harness/target/debug/aquaharness $p $TIER $SEED /verif/lean/.lake/build/bin/aquadrv /tmp/r_$p.json >/dev/null 2>&1 ) &
done
wait
python3 - <<'PY'
import json
for p in ['C02','C03','C04','C05','C06','C07','C09','C10','C19','C20']:
    r=json.load(open(f'/tmp/r_{p}.json'))
    print(p, {k:r[k] for k in ['evaluations','distinct_nontrivial','wall_s']}, 'fails', r['stats'].get('oracle_failures',0), 'disagree', r['stats'].get('disagreements',0), 'panics', r['stats'].get('interpreter_panics_skipped(C01)',0), r.get('harness_panic'))
    seen=set()
    for d in r['oracle_failures']:
        w=d['why'][:60]
        if w in seen: continue
        seen.add(w); print('    ', d['why'][:300])
PY
