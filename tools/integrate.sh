#!/bin/sh
# usage: integrate.sh <ID> : bring the changes of the builder copy /tmp/dev_<ID>/verif into /verif (3-way)
ID=$1
SRC=/tmp/dev_$ID/verif
cd $SRC || exit 2
git add -N . >/dev/null 2>&1
git diff HEAD -- . ':!evidence' ':!harness/.cargo' ':!harness/Cargo.lock' ':!harness/Cargo.toml' ':!MANIFEST.json' ':!work' ':!replays' > /tmp/dev_$ID/integrate.patch
git diff HEAD -- harness/Cargo.toml > /tmp/dev_$ID/cargo_toml.patch
echo "patch: $(wc -l < /tmp/dev_$ID/integrate.patch) lines; files:"; git diff HEAD --stat -- . ':!evidence' ':!harness/.cargo' ':!harness/Cargo.lock' ':!MANIFEST.json' | tail -40
cd /verif && git apply --3way /tmp/dev_$ID/integrate.patch; echo "apply exit: $?"; git status --short | head -40
echo "--- Cargo.toml changes of the copy (apply by hand if needed):"; grep '^[+-]' /tmp/dev_$ID/cargo_toml.patch | grep -v '^+++\|^---' | grep -v '/repo/' | head
