#!/usr/bin/env python3
"""Writes /verif/MANIFEST.json from the table below (kept in one place so it stays valid)."""
import json, os
V = os.path.dirname(os.path.dirname(os.path.abspath(__file__)))
ALL = [f'C{i:02d}' for i in range(1, 29)]

CLAIMED = {
 'C06': dict(
    text="Theorems about the Lean replica of the execution stage (Aqua.Exec.runExec), for EVERY script, fuel, previous/current data, run parameters and call-result map, proved by the generic induction over the fuelled interpreter (exec_rel, instance Grow): C06_requests_numbered (requests of a run carry exactly the ids prev.lcid+1..prev.lcid+n in issue order), C06_ids_fresh (each id > previous counter, <= new counter, strictly increasing, counter monotone), C06_counter_ignores_current, C06_history_fresh (along any host-respecting run sequence all ids ever handed out are strictly increasing), and — over the network model Aqua.Net (Aqua/Run/Net.lean: hosts store the returned data, feed it back as previous data, deliver messages in any order incl. duplicates, answer pending requests late and in batches) — C06_network_ids_fresh: in EVERY reachable state of EVERY honest history, for every script, service behaviour and schedule, the ids ever handed to a peer's host are strictly increasing (no id is issued twice on a peer), C06_network_counter_bounds; proved by the invariant reachable_inv (every recorded run is a genuine invocation of the model on the recorded inputs; per peer, each run starts from what the preceding one returned). Routing of results to the requesting call and the 30000 report for unknown ids are covered by the correspondence/oracle part, not yet by a theorem (partial on that clause). Tie: lock-step correspondence of the executor model on every step of honest histories (incl. streams, canon, stream folds) (projection: code, counter, request ids) + direct oracles (id freshness per peer, results recorded at the call that requested them, unknown ids reported).",
    note="Lean kernel + propext/Quot.sound; the executor model covers scalars, streams, stream maps, canon streams, canon maps and all folds (nothing is skipped as unmodelled by the correspondence); hashing and JSON parsing are parameters of the model (Env); the theorem is about the model, tied to the code by differential runs only.",
    technique="Lean 4 proof: relational invariant through the fuelled interpreter (induction on fuel) + lock-step differential histories", design="§5.1, §8 C06"),
 'C19': dict(
    text="Theorems about Aqua.Exec.runExec for EVERY script, fuel, data pair, parameters and call results (same induction, exec_grow): C19_local_only (every call request of a run was issued for a call whose resolved peer is the current peer), C19_next_peers_not_self, C19_outcome_next_peers (any duplicate-free list with the same members, i.e. the HashSet round trip of farewell, has no duplicates and never names the current peer), C19_peer_ids_stable, C19_remote_call_forwarded (the one update that creates a sent-by-me call entry appends the call's resolved peer to the next peers in the same step), C19_canon_and_calls_never_forward_to_self (whole run, canon included); lifted to EVERY reachable state of the network model Aqua.Net (any script, services, schedule): C19_network_requests_local (every request any host was ever handed is for a call addressed to that host's peer), C19_network_never_forwards_to_self, C19_network_failed_run_inert, C19_network_wire_from_runs (every message in flight in any reachable state carries the data an accepted run returned and is addressed to one of the next peers that run named, never to the peer that produced it: a particle travels only where a run asked for it, and the current data honest hosts are handed is interpreter output); canon creation only at the addressed peer is C11_created_only_at_target. Quiescence (no sent-but-unexecuted entry once everything is delivered) is checked by the oracle on finished histories only (partial). Tie: lock-step correspondence (projection: code, next-peer set, requests) + direct oracle on every step.",
    note="Lean kernel + propext/Quot.sound; executor model incl. streams, stream maps, canon streams and canon maps; forPeer is a ghost field of the model's request record.",
    technique="Lean 4 proof: relational invariant through the fuelled interpreter + lock-step differential histories", design="§5.1, §8 C19"),
 'C15': dict(
    text="Full-strength theorems about the model of DataVerifier::merge's per-peer step for EVERY pair of signed result lists: C15_merge_spec (succeeds iff one multiset contains the other, keeps the larger entry, previous on ties), C15_incomparable_rejected, C15_nested_keeps_larger(+'), C15_kept_contains_both, and C15_rejected_returns_prev over the staged runner (a failing verification stage returns prev data, no peers, empty requests). Multiset inclusion is List.Subperm (Mathlib), the executable count-based test is proved equivalent to it. Tie: the real DataVerifier::new/merge is run on crafted InterpreterData pairs (nested, equal, incomparable, multiplicity-only differences, peers on one side) and diffed with the model; forked single-peer histories are delivered to an observer through execute_air in both orders and checked against the property statement.",
    note="Lean kernel + propext/Classical.choice/Quot.sound (Mathlib's Subperm lemmas); hand-written replica of merge/check_cid_multiset_invariant validated by differential runs; signatures are opaque strings here (their cryptographic validity is C14's concern); which peer's mismatch is reported first depends on hash-map order (error path only).",
    technique="Lean 4 proof (multiset/Subperm characterisation) + differential runs of DataVerifier + forked-history oracle", design="§8 C15"),
 'C02': dict(
    text="Theorems: C02_ranges / C02_ranges_disjoint / C02_nonzero / C02_unprocessed_is_30000 over the error-code tables regenerated from the Rust enums on every run (every variant's code lies in its documented range, ranges disjoint); C02_outcome_shapes, C02_failed_returns_prev, C02_ok_returns_new about the staged-runner model for EVERY instantiation of the stages and every input: a preparation/uncatchable code returns exactly prev data, no next peers, the empty request map; 0/catchable/30000 return what populate_outcome computed. Proved under the explicit hypothesis that populate_outcome_from_contexts has no internal error (the 'empty data' exits of farewell_step/outcome.rs); reachability of those exits is searched by the harness (compactification/signing failures), hence partial on that point. Tie: staged-model correspondence on every step of fault-injected honest histories + direct oracle of the property on every step.",
    note="Lean kernel + propext/Quot.sound; runner cascade replica validated by differential runs; hypothesis hpop (no internal populate error) is not proved for the concrete executor yet; error tables are generated by tools/gen_tables.py.",
    technique="Lean 4 proof over generated error tables + parametric staged-runner model; differential histories with injected faults", design="§8 C02"),
 'C21': dict(
    text="Full-strength theorems about the model of preparation_step::parse_data over real envelope bytes (MessagePack + serde-flatten view) for EVERY byte string and every rkyv decoder: C21_reject_iff (rejected with UnsupportedInterpreterVersion iff both envelopes decode and the current one's version is below the minimum), C21_supported_not_rejected, C21_empty_is_empty_data, C21_lt_release_iff (what 'older' means for triples, pre-release tags and build metadata under the semver crate's order). Tied to the code by differential runs over the version grid x 11 envelope shapes and an oracle using the real semver crate.",
    note="Lean kernel + propext/Quot.sound; hand-written replicas of semver 1.0.21 parse/order, rmp MessagePack decoding and serde's flatten/serde_bytes view validated only by the correspondence run; the rkyv decoder is a parameter (trusted base); the minimal version string is regenerated from interpreter_versions.rs on every run.",
    technique="Lean 4 proof (iff characterisation + order lemma) + differential correspondence on version grid", design="§8 C21"),
 'C22': dict(
    text="Full-strength theorems (C22_hard_air/_particle/_call_result, C22_soft_equiv, C22_at_or_below_never_triggers) about the staged-runner model for EVERY instantiation of the stages, every input and every limit configuration; tied to the code by a correspondence run (implementation under the limit grid {size-1,size,size+1,0,max}^3 x {soft,hard} vs the model replaying the unlimited run's stage results) plus a direct oracle of the property on the implementation.",
    note="Lean kernel + propext/Quot.sound; the staged-runner replica (runner.rs/preparation.rs/sizes_limits_check.rs) is hand-written and validated by differential runs; stage internals (decoding, verification, execution) are parameters of the theorem, so the statement holds whatever they do; the translator checks that the limit fields are read only in the preparation step.",
    technique="Lean 4 proof over a parametric staged-runner model + differential correspondence on a limit grid", design="§8 C22"),
}

def entry(pid, c):
    return {
        'property_id': pid,
        'quick_cmd': f'./bin/check {pid} --tier quick',
        'thorough_cmd': f'./bin/check {pid} --tier thorough',
        'evidence_file': f'/verif/evidence/{pid}.json',
        'replay_cmd_template': f'./bin/check {pid} --replay {{path}}',
        'engine': 'lean-model+rust-harness',
        'level_claimed': {'category': 'proof', 'text': c['text'], 'design_ref': c['design']},
        'level_note': c['note'],
        'technique': c['technique'],
    }

def main():
    import importlib.util
    extra = os.path.join(V, 'tools', 'manifest_claims.py')
    claimed = dict(CLAIMED)
    if os.path.exists(extra):
        spec = importlib.util.spec_from_file_location('manifest_claims', extra)
        m = importlib.util.module_from_spec(spec); spec.loader.exec_module(m)
        claimed.update(m.CLAIMED)
        na_reasons = getattr(m, 'NOT_APPLICABLE', {})
    else:
        na_reasons = {}
    man = {
        'version': 1,
        'setup_cmd': './bin/setup',
        'hooks': {
            'guard': 'aquavm_verif',
            'enable': 'RUSTFLAGS="--cfg aquavm_verif" for the harness build (no hook commits exist yet; every check uses public APIs only)',
            'baseline_off_cmd': 'cd /repo && cargo test --workspace --no-fail-fast --offline',
            'source_commits': [],
            'add_only': True,
        },
        'engines': [
            {'name': 'lean-model', 'path': '/verif/lean', 'serves_properties': sorted(claimed), 'kind_free_text': 'Lean 4 model (Aqua/), property theorems (AquaProps/), line-protocol driver (Main.lean)'},
            {'name': 'translator', 'path': '/verif/tools/gen_tables.py', 'serves_properties': sorted(claimed), 'kind_free_text': 'regenerates Aqua/Gen/*.lean (error-code enums, start ids, constants, limit-field users) from /repo on every run'},
            {'name': 'rust-harness', 'path': '/verif/harness', 'serves_properties': sorted(claimed), 'kind_free_text': 'links the real crates, generates cases from VERIF_SEED, diffs implementation vs model driver, runs direct property oracles'},
        ],
        'checks': [entry(p, claimed[p]) for p in ALL if p in claimed],
        'notes': 'Technique: machine-checked proof in Lean 4 + checked tie (translator + correspondence). See DESIGN.md.',
        'not_applicable': [{'property_id': p, 'reason': na_reasons.get(p, 'not claimed yet: the check for this property is still being built (see DESIGN.md §13); no other technique is substituted')}
                           for p in ALL if p not in claimed],
    }
    with open(os.path.join(V, 'MANIFEST.json'), 'w') as f:
        json.dump(man, f, indent=1)
    print('MANIFEST.json:', len(man['checks']), 'checks,', len(man['not_applicable']), 'not claimed')

if __name__ == '__main__':
    main()
