#!/usr/bin/env python3
"""Writes /verif/MANIFEST.json from the table below (kept in one place so it stays valid)."""
import json, os
V = os.path.dirname(os.path.dirname(os.path.abspath(__file__)))
ALL = [f'C{i:02d}' for i in range(1, 29)]

CLAIMED = {
 'C21': dict(
    text="Full-strength theorems about the model of preparation_step::parse_data over real envelope bytes (MessagePack + serde-flatten view) for EVERY byte string and every rkyv decoder: C21_reject_iff (rejected with UnsupportedInterpreterVersion iff both envelopes decode and the current one's version is below the minimum), C21_supported_not_rejected, C21_empty_is_empty_data, C21_lt_release_iff (what 'older' means for triples, pre-release tags and build metadata under the semver crate's order). Tied to the code by differential runs over the version grid x 11 envelope shapes and an oracle using the real semver crate.",
    note="Lean kernel + propext/Quot.sound; hand-written replicas of semver 1.0.21 parse/order, rmp MessagePack decoding and serde's flatten/serde_bytes view validated only by the correspondence run; the rkyv decoder is a parameter (trusted base); the minimal version string is regenerated from interpreter_versions.rs on every run.",
    technique="Lean 4 proof (iff characterisation + order lemma) + differential correspondence on version grid", design="§8 C21"),
 'C22': dict(
    text="Full-strength theorems (C22_hard_air/_particle/_call_result, C22_soft_equiv, C22_at_or_below_never_triggers) about the staged-runner model for EVERY instantiation of the stages, every input and every limit configuration; tied to the code by a correspondence run (implementation under the limit grid {size-1,size,size+1,0,max}^3 x {soft,hard} vs the model replaying the unlimited run's stage results) plus a direct oracle of the property on the implementation.",
    note="Lean kernel + propext/Quot.sound; the staged-runner replica (runner.rs/preparation.rs/sizes_limits_check.rs) is hand-written and validated by differential runs; stage internals (decoding, verification, execution) are parameters of the theorem, so the statement holds whatever they do; the translator checks that the limit fields are read only in the preparation step.",
    technique="Lean 4 proof over a parametric staged-runner model + differential correspondence on a limit grid", design="§8 C22"),
}

def entry(pid, c):
    return {
        'property_id': pid,
        'quick_cmd': f'./bin/check {pid} --tier quick',
        'thorough_cmd': f'./bin/check {pid} --tier thorough',
        'evidence_file': f'/verif/evidence/{pid}.json',
        'replay_cmd_template': f'./bin/check {pid} --replay {{path}}',
        'engine': 'lean-model+rust-harness',
        'level_claimed': {'category': 'proof', 'text': c['text'], 'design_ref': c['design']},
        'level_note': c['note'],
        'technique': c['technique'],
    }

def main():
    import importlib.util
    extra = os.path.join(V, 'tools', 'manifest_claims.py')
    claimed = dict(CLAIMED)
    if os.path.exists(extra):
        spec = importlib.util.spec_from_file_location('manifest_claims', extra)
        m = importlib.util.module_from_spec(spec); spec.loader.exec_module(m)
        claimed.update(m.CLAIMED)
        na_reasons = getattr(m, 'NOT_APPLICABLE', {})
    else:
        na_reasons = {}
    man = {
        'version': 1,
        'setup_cmd': './bin/setup',
        'hooks': {
            'guard': 'aquavm_verif',
            'enable': 'RUSTFLAGS="--cfg aquavm_verif" for the harness build (no hook commits exist yet; every check uses public APIs only)',
            'baseline_off_cmd': 'cd /repo && cargo test --workspace --no-fail-fast --offline',
            'source_commits': [],
            'add_only': True,
        },
        'engines': [
            {'name': 'lean-model', 'path': '/verif/lean', 'serves_properties': sorted(claimed), 'kind_free_text': 'Lean 4 model (Aqua/), property theorems (AquaProps/), line-protocol driver (Main.lean)'},
            {'name': 'translator', 'path': '/verif/tools/gen_tables.py', 'serves_properties': sorted(claimed), 'kind_free_text': 'regenerates Aqua/Gen/*.lean (error-code enums, start ids, constants, limit-field users) from /repo on every run'},
            {'name': 'rust-harness', 'path': '/verif/harness', 'serves_properties': sorted(claimed), 'kind_free_text': 'links the real crates, generates cases from VERIF_SEED, diffs implementation vs model driver, runs direct property oracles'},
        ],
        'checks': [entry(p, claimed[p]) for p in ALL if p in claimed],
        'notes': 'Technique: machine-checked proof in Lean 4 + checked tie (translator + correspondence). See DESIGN.md.',
        'not_applicable': [{'property_id': p, 'reason': na_reasons.get(p, 'not claimed yet: the check for this property is still being built (see DESIGN.md §13); no other technique is substituted')}
                           for p in ALL if p not in claimed],
    }
    with open(os.path.join(V, 'MANIFEST.json'), 'w') as f:
        json.dump(man, f, indent=1)
    print('MANIFEST.json:', len(man['checks']), 'checks,', len(man['not_applicable']), 'not claimed')

if __name__ == '__main__':
    main()
