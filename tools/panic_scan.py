#!/usr/bin/env python3
"""Panic-site inventory (property C01): every syntactic place in the NON-TEST code on the
`execute_air` / `parse` / `to_human_readable_data` / `beautify` paths where the Rust code can panic:

  kind  what is matched
  ----  ---------------------------------------------------------------------------------------------
  unwrap      `.unwrap()`                               expect   `.expect(`
  macro       `panic!` `unreachable!` `unimplemented!` `todo!` `assert!` `assert_eq!` `assert_ne!`
  debug       `debug_assert!` `debug_assert_eq!` `debug_assert_ne!`   (compiled out: release has debug-assertions=false)
  index       `expr[ … ]` index / slice expressions
  arith       binary `+ - * += -= *=` in the curated files that compute on the u32 newtypes
              (TracePos, TraceLen, GenerationIdx) or on sizes read from data (the workspace builds
              with overflow-checks = true, so every overflow there is a panic)
  method      library calls that panic on a bad index / a held borrow: `.remove( .swap_remove( .split_at(
              .split_off( .drain( .copy_from_slice( .borrow_mut( .borrow(`
  alloc       sizes handed to the allocator: `.resize( .reserve( with_capacity( vec![x; n]`

Not scanned: tests (`tests/` dirs, `#[cfg(test)]` items, `#[test]` fns) and LALRPOP-generated parsers
(files starting with `// auto-generated: "lalrpop`): generated LR tables are part of the trusted base.

A site is keyed by   <file relative to the repo> | <enclosing fn> | <normalised source line> [#k]
(never by line number; `#k` numbers identical lines inside one function), so that moving code around
does not change the inventory, while a new `unwrap()` anywhere in these crates is a new key.

Output: lean/Aqua/Gen/PanicSites.lean (the modelled site strings + counts) and
lean/Aqua/Gen/PanicSites.json (the full inventory), compared with the hand-written classification
sites/panic_sites.json by the harness (a scanned site missing there = broken obligation).
"""
import os, re, json, sys

SCAN_ROOTS = [
    'air/src',
    'crates/air-lib/trace-handler/src',
    'crates/air-lib/interpreter-data/src',
    'crates/air-lib/interpreter-cid/src',
    'crates/air-lib/interpreter-value/src',
    'crates/air-lib/interpreter-sede/src',
    'crates/air-lib/interpreter-signatures/src',
    'crates/air-lib/interpreter-interface/src',
    'crates/air-lib/air-parser/src',
    'crates/air-lib/lambda/parser/src',
    'crates/air-lib/lambda/ast/src',
    'crates/air-lib/polyplets/src',
    'crates/air-lib/utils/src',
    'crates/beautifier/src',
]
# files whose arithmetic is inventoried (u32 newtypes / data-derived sizes)
ARITH_FILES = [
    'crates/air-lib/trace-handler/src/',
    'crates/air-lib/interpreter-data/src/trace_pos.rs',
    'crates/air-lib/interpreter-data/src/generation_idx.rs',
    'crates/air-lib/interpreter-data/src/trace.rs',
    'air/src/execution_step/value_types/stream/',
    'air/src/execution_step/value_types/canon_stream',
    'air/src/execution_step/execution_context/context.rs',
    'air/src/execution_step/execution_context/scalar_variables/',
    'air/src/execution_step/execution_context/stream_maps_variables/',
    'air/src/execution_step/execution_context/streams_variables/',
    'air/src/execution_step/instructions/fold',
    'air/src/execution_step/instructions/ap',
    'air/src/execution_step/instructions/canon',
    'crates/air-lib/air-parser/src/parser/lexer/',
    'crates/air-lib/lambda/parser/src/parser/lexer/',
]
SKIP_FILE = re.compile(r'(^|/)(tests?|benches|test_utils?)(/|\.rs$)|(^|/)tests?_[a-z_]*\.rs$|_tests?\.rs$')


def blank(src: str) -> str:
    """same-length copy of `src` with comments and the contents of string/char literals replaced by spaces"""
    out = list(src)
    i, n = 0, len(src)

    def wipe(a, b):
        for k in range(a, b):
            if out[k] != '\n': out[k] = ' '
    while i < n:
        c = src[i]
        if src.startswith('//', i):
            j = src.find('\n', i); j = n if j < 0 else j
            wipe(i, j); i = j
        elif src.startswith('/*', i):
            depth, j = 1, i + 2
            while j < n and depth:
                if src.startswith('/*', j): depth += 1; j += 2
                elif src.startswith('*/', j): depth -= 1; j += 2
                else: j += 1
            wipe(i, j); i = j
        elif c == 'r' and re.match(r'r#*"', src[i:i + 12]) and (i == 0 or not (src[i - 1].isalnum() or src[i - 1] == '_')):
            m = re.match(r'r(#*)"', src[i:i + 12])
            end = src.find('"' + m.group(1), i + len(m.group(0)))
            end = n if end < 0 else end
            wipe(i + len(m.group(0)), end); i = end + 1 + len(m.group(1))
        elif c == '"':
            j = i + 1
            while j < n and src[j] != '"':
                j += 2 if src[j] == '\\' else 1
            wipe(i + 1, min(j, n)); i = j + 1
        elif c == "'":
            m = re.match(r"'(\\.[^']*|[^'\\])'", src[i:i + 12])
            if m: wipe(i + 1, i + len(m.group(0)) - 1); i += len(m.group(0))
            else: i += 1
        else:
            i += 1
    return ''.join(out)


def match_brace(s, i):
    depth = 0
    n = len(s)
    while i < n:
        ch = s[i]
        if ch == '{': depth += 1
        elif ch == '}':
            depth -= 1
            if depth == 0: return i
        i += 1
    return n - 1


def test_ranges(b):
    """byte ranges of `#[cfg(test)]` items and `#[test]` functions"""
    rs = []
    for m in re.finditer(r'#\[\s*(cfg\s*\(\s*(all\s*\()?\s*test\b[^\]]*|test)\s*\]', b):
        j = m.end()
        # the item ends at the first `;` or matching `}` whichever opens first
        k = j
        while k < len(b) and b[k] not in '{;': k += 1
        if k < len(b) and b[k] == '{': rs.append((m.start(), match_brace(b, k) + 1))
        else: rs.append((m.start(), k + 1))
    return rs


def fn_ranges(b):
    out = []
    for m in re.finditer(r'\bfn\s+([A-Za-z_][A-Za-z0-9_]*)', b):
        k = m.end()
        depth = 0
        # skip the signature: first `{` or `;` outside parentheses/angle brackets of the signature
        while k < len(b):
            ch = b[k]
            if ch in '([': depth += 1
            elif ch in ')]': depth -= 1
            elif ch == ';' and depth == 0: break
            elif ch == '{' and depth == 0: break
            k += 1
        if k < len(b) and b[k] == '{': out.append((k, match_brace(b, k) + 1, m.group(1)))
    return out


def impl_ranges(b):
    out = []
    for m in re.finditer(r'^[ \t]*(?:pub(?:\([a-z]+\))?\s+)?(?:unsafe\s+)?(impl|trait)\b([^{;]*)\{', b, re.M):
        hdr = re.sub(r'\s+', ' ', m.group(2)).strip()
        hdr = re.sub(r'^<[^>]*>\s*', '', hdr)            # generic parameter list of the impl
        hdr = re.sub(r'\bwhere\b.*$', '', hdr).strip()
        if ' for ' in hdr: hdr = hdr.split(' for ')[-1].strip() + ':' + hdr.split(' for ')[0].strip()
        hdr = re.sub(r"<[^<>]*>", '', hdr)
        hdr = re.sub(r"<[^<>]*>", '', hdr)
        out.append((m.end() - 1, match_brace(b, m.end() - 1) + 1, hdr.replace(' ', '')))
    return out


MACROS = ['panic', 'unreachable', 'unimplemented', 'todo', 'assert', 'assert_eq', 'assert_ne']
DEBUG_MACROS = ['debug_assert', 'debug_assert_eq', 'debug_assert_ne']
PAT = [
    ('unwrap', re.compile(r'\.\s*unwrap\s*\(\s*\)')),
    ('expect', re.compile(r'\.\s*expect\s*\(')),
    ('macro', re.compile(r'(?<![A-Za-z0-9_])(' + '|'.join(MACROS) + r')\s*!')),
    ('debug', re.compile(r'(?<![A-Za-z0-9_])(' + '|'.join(DEBUG_MACROS) + r')\s*!')),
    # an index expression: `[` directly after an identifier character, `)`, `]` or `?`
    ('index', re.compile(r'(?<=[A-Za-z0-9_\)\]\?])\[')),
    # library calls that panic on a bad index / a held borrow
    ('method', re.compile(r'\.\s*(remove|swap_remove|split_at|split_off|drain|copy_from_slice|borrow_mut|borrow|nth_back|truncate_front|first_mut_unchecked)\s*\(')),
    # sizes handed to the allocator
    ('alloc', re.compile(r'\.\s*(resize|resize_with|reserve|reserve_exact)\s*\(|\bwith_capacity\s*\(|\bvec\s*!\s*\[[^\]\n;]*;')),
]
ARITH = re.compile(r'(?<![<>=!&|+\-*/%^\'(,\[{:])\s(\+=|-=|\*=|\+|-|\*)\s(?![=>])')


def enclosing(ranges, pos):
    best = None
    for a, e, name in ranges:
        if a <= pos < e and (best is None or a > best[0]): best = (a, e, name)
    return best[2] if best else None


FUNCTIONS = {}


def scan_file(repo, rel):
    src = open(os.path.join(repo, rel), encoding='utf-8').read()
    if re.match(r'\s*// auto-generated: "lalrpop', src): return []     # generated LR tables: trusted base, not inventoried
    b = blank(src)
    tests = test_ranges(b)
    fns, impls = fn_ranges(b), impl_ranges(b)
    lines_start = [0]
    for m in re.finditer('\n', src): lines_start.append(m.end())
    import bisect
    sites = []
    FUNCTIONS[rel] = [[bisect.bisect_right(lines_start, a), bisect.bisect_right(lines_start, e - 1), (enclosing(impls, a) + '::' if enclosing(impls, a) else '') + name] for a, e, name in fns
                      if not any(x <= a < y for x, y in tests)]
    arith = any(rel.startswith(p) for p in ARITH_FILES)

    def add(kind, pos):
        if any(a <= pos < e for a, e in tests): return
        fn = enclosing(fns, pos)
        if fn is None and kind in ('index', 'arith'): return       # type-level / const context
        li = bisect.bisect_right(lines_start, pos) - 1
        end = src.find('\n', lines_start[li]); end = len(src) if end < 0 else end
        # the snippet is the source line with comments removed (string literals kept: they identify the site)
        line_src, line_b = src[lines_start[li]:end], b[lines_start[li]:end]
        cpos = None
        for k in range(len(line_b) - 1):
            if line_src[k:k + 2] == '//' and line_b[k:k + 2] == '  ': cpos = k; break
        if cpos is not None: line_src = line_src[:cpos]
        snippet = re.sub(r'\s+', ' ', line_src).strip()
        im = enclosing(impls, pos)
        sites.append({'file': rel, 'fn': (im + '::' if im else '') + (fn or '<item>'), 'kind': kind, 'snippet': snippet, 'line': li + 1})

    for kind, pat in PAT:
        for m in pat.finditer(b):
            if kind == 'index':
                # skip attributes `#[…]`, macro brackets `name![`, array types after `:`/`<`/`&` (not matched anyway)
                k = m.start() - 1
                while k >= 0 and (b[k].isalnum() or b[k] == '_'): k -= 1
                word = b[k + 1:m.start()]
                if k >= 0 and b[k] == '#': continue
                if word in ('mut', 'const', 'dyn', 'in', 'return', 'as', 'else', 'match', 'if', 'for', 'while', 'let', 'ref', 'move', 'impl', 'where'): continue
            add(kind, m.start())
    if arith:
        for m in ARITH.finditer(b):
            pos = m.start(1)
            # not inside a generic bound (`T: A + B`) or a type position: require being inside a fn body
            fn = enclosing(fns, pos)
            if fn is None: continue
            # skip trait-bound sums: `dyn A + B`, `impl A + B`, `'a + B`
            li_start = b.rfind('\n', 0, pos) + 1
            pre = b[li_start:pos]
            if re.search(r"\b(dyn|impl)\s+[A-Za-z_:<>']+\s*$", pre) or re.search(r"'[a-z_]+\s*$", pre) or re.search(r':\s*[A-Z][A-Za-z0-9_:<>]*\s*$', pre): continue
            add('arith', pos)
    return sites


def scan(repo):
    all_sites = []
    for root in SCAN_ROOTS:
        base = os.path.join(repo, root)
        for d, dirs, files in os.walk(base):
            dirs[:] = sorted(x for x in dirs if x not in ('target', 'tests', 'benches', 'junk', '.git'))
            for f in sorted(files):
                if not f.endswith('.rs'): continue
                rel = os.path.relpath(os.path.join(d, f), repo)
                if SKIP_FILE.search(rel): continue
                all_sites.extend(scan_file(repo, rel))
    # several matches on one line of one function collapse per kind into one site with a count; identical lines in
    # one function are numbered
    merged, order = {}, []
    for s in all_sites:
        k0 = (s['file'], s['fn'], s['kind'], s['snippet'], s['line'])
        if k0 in merged: merged[k0]['count'] += 1; continue
        s = dict(s); s['count'] = 1
        merged[k0] = s; order.append(k0)
    seen = {}
    out = []
    for k0 in order:
        s = merged[k0]
        base = f"{s['file']} | {s['fn']} | {s['kind']} | {s['snippet']}"
        n = seen.get(base, 0); seen[base] = n + 1
        s['key'] = base if n == 0 else f'{base} #{n + 1}'
        out.append(s)
    return out


def lean_str(s): return json.dumps(s, ensure_ascii=False)


def modelled_sites(classification):
    """the `modelled:<site>` strings of the classification file, in file order, without duplicates"""
    out = []
    for v in classification.get('sites', {}).values():
        if isinstance(v, str) and v.startswith('modelled:'):
            for s in v[len('modelled:'):].split(' || '):
                s = s.strip()
                if s and s not in out: out.append(s)
    return out


def generate(repo, verif):
    sites = scan(repo)
    cls_path = os.path.join(verif, 'sites', 'panic_sites.json')
    classification = json.load(open(cls_path)) if os.path.exists(cls_path) else {'sites': {}}
    cl = classification.get('sites', {})
    unclassified = [s['key'] for s in sites if s['key'] not in cl]
    unreviewed = [s['key'] for s in sites if cl.get(s['key']) == 'unreviewed']
    by_kind = {}
    for s in sites: by_kind[s['kind']] = by_kind.get(s['kind'], 0) + 1
    inv = {'repo': repo, 'functions': FUNCTIONS, 'counts': by_kind, 'total': len(sites), 'unclassified': unclassified, 'unreviewed': unreviewed,
           'sites': [{k: s[k] for k in ('key', 'file', 'fn', 'kind', 'snippet', 'line', 'count')} for s in sites]}
    ms = modelled_sites(classification)
    lean = ['/- GENERATED by tools/gen_tables.py (tools/panic_scan.py) — do not edit.',
            '   Inventory of the syntactic panic sites of the Rust code (DESIGN.md §4.2, property C01) and the',
            '   site strings the classification file sites/panic_sites.json maps them to in the Lean model. -/',
            'namespace Aqua.Gen', '',
            f'def panicSitesScanned : Nat := {len(sites)}',
            f'def panicSitesUnclassified : Nat := {len(unclassified)}',
            f'def panicSitesUnreviewed : Nat := {len(unreviewed)}',
            '/-- scanned sites per kind -/',
            'def panicSiteKinds : List (String × Nat) := [' + ', '.join(f'({lean_str(k)}, {v})' for k, v in sorted(by_kind.items())) + ']',
            '/-- model site strings that the classification claims for at least one scanned Rust site -/',
            'def modelledPanicSites : List String := [' + ',\n  '.join(lean_str(s) for s in ms) + ']',
            '', 'end Aqua.Gen', '']
    # one site per line (diff-friendly), the function table compact
    body = json.dumps({k: v for k, v in inv.items() if k != 'sites'}, ensure_ascii=False, separators=(',', ':'))
    sites_txt = ',\n'.join(json.dumps(s, ensure_ascii=False) for s in inv['sites'])
    return '\n'.join(lean), body[:-1] + ',\n"sites":[\n' + sites_txt + '\n]}\n'


if __name__ == '__main__':
    repo = os.environ.get('AQUA_REPO', '/repo')
    verif = os.path.join(os.path.dirname(os.path.abspath(__file__)), '..')
    sites = scan(repo)
    if len(sys.argv) > 1 and sys.argv[1] == 'dump':
        for s in sites: print(s['key'])
    else:
        kinds = {}
        for s in sites: kinds[s['kind']] = kinds.get(s['kind'], 0) + 1
        print(len(sites), kinds)
