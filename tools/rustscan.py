"""Minimal Rust source scanning helpers (comment/string stripping, enum variant extraction).
Used by the translator (gen_tables.py): the output is regenerated from /repo on every run."""
import re, os

def strip(src: str, keep_strings=False) -> str:
    """Remove comments; replace string/char literal contents by nothing (keeps quotes) unless keep_strings."""
    out = []
    i, n = 0, len(src)
    while i < n:
        c = src[i]
        if src.startswith('//', i):
            j = src.find('\n', i)
            i = n if j < 0 else j
        elif src.startswith('/*', i):
            depth, i = 1, i + 2
            while i < n and depth:
                if src.startswith('/*', i): depth += 1; i += 2
                elif src.startswith('*/', i): depth -= 1; i += 2
                else: i += 1
        elif c == 'r' and re.match(r'r#*"', src[i:]):
            m = re.match(r'r(#*)"', src[i:])
            hashes = m.group(1)
            end = src.find('"' + hashes, i + len(m.group(0)))
            body = src[i + len(m.group(0)):end]
            out.append('"' + (body if keep_strings else '') + '"')
            i = end + 1 + len(hashes)
        elif c == '"':
            j = i + 1
            while j < n and src[j] != '"':
                j += 2 if src[j] == '\\' else 1
            out.append('"' + (src[i+1:j] if keep_strings else '') + '"')
            i = j + 1
        elif c == "'":
            m = re.match(r"'(\\.[^']*|[^'\\])'", src[i:])
            if m:
                out.append("' '")
                i += len(m.group(0))
            else:
                out.append(c); i += 1   # lifetime
        else:
            out.append(c); i += 1
    return ''.join(out)

def matching(src, i, open_='{', close='}'):
    depth = 0
    while i < len(src):
        if src[i] == open_: depth += 1
        elif src[i] == close:
            depth -= 1
            if depth == 0: return i
        i += 1
    raise ValueError('unbalanced')

def enum_variants(path, name):
    src = strip(open(path).read())
    m = re.search(r'\benum\s+' + re.escape(name) + r'\b[^{]*\{', src)
    if not m:
        raise ValueError(f'enum {name} not found in {path}')
    start = m.end() - 1
    end = matching(src, start)
    body = src[start+1:end]
    items, depth, cur = [], 0, ''
    for ch in body:
        if ch in '({[<': depth += 1
        elif ch in ')}]>': depth -= 1
        if ch == ',' and depth == 0:
            items.append(cur); cur = ''
        else:
            cur += ch
    if cur.strip(): items.append(cur)
    names = []
    for it in items:
        # drop attributes
        s = it
        while True:
            s = s.strip()
            if s.startswith('#'):
                j = s.index('[')
                s = s[matching(s, j, '[', ']')+1:]
            else:
                break
        m = re.match(r'([A-Za-z_][A-Za-z0-9_]*)', s)
        if m: names.append(m.group(1))
    return names

def const_value(path, name, keep_strings=True):
    src = strip(open(path).read(), keep_strings=keep_strings)
    m = re.search(r'\b(?:const|static)\s+' + re.escape(name) + r'\s*:\s*[^=]+=\s*([^;]+);', src)
    if not m:
        raise ValueError(f'const {name} not found in {path}')
    return m.group(1).strip()

def rust_files(root):
    for d, dirs, files in os.walk(root):
        dirs[:] = [x for x in dirs if x not in ('target', 'tests', 'benches', 'junk', '.git')]
        for f in files:
            if f.endswith('.rs'):
                yield os.path.join(d, f)
