#!/usr/bin/env python3
"""usage: adopt_seed.py <Cxx> <slug> <caught_by text>
Copies a seed agent's deliverable (/tmp/seed_<Cxx>_out: patch.diff, meta.json, demo without build output, logs) to
/verif/seeded/<Cxx>-<slug>/ and records which checks caught it."""
import sys, os, json, shutil, datetime
cid, slug, caught = sys.argv[1], sys.argv[2], sys.argv[3]
src = os.environ.get('SEED_SRC', f'/tmp/seed_{cid}_out'); dst = f'/verif/seeded/{cid}-{slug}'
os.makedirs(dst, exist_ok=True)
shutil.copy2(f'{src}/patch.diff', f'{dst}/patch.diff')
if os.path.isdir(f'{src}/demo'):
    shutil.copytree(f'{src}/demo', f'{dst}/demo', dirs_exist_ok=True, ignore=shutil.ignore_patterns('target', '*.log.big'))
for f in os.listdir(src):
    if f.startswith('demo_') and f.endswith('.log') and os.path.getsize(f'{src}/{f}') < 200000:
        shutil.copy2(f'{src}/{f}', f'{dst}/{f}')
m = json.load(open(f'{src}/meta.json'))
m['caught_by'] = caught
m['checked_at'] = f'{datetime.date.today()} quick tier, private worktree (tools: /tmp/seedtest/run_seed.sh)'
json.dump(m, open(f'{dst}/meta.json', 'w'), indent=1, ensure_ascii=False)
print('adopted', dst)
