#!/usr/bin/env python3
"""Refreshes the generated tables of DESIGN.md (between BEGIN/END GENERATED markers) from MANIFEST.json,
known_findings.json, the theorem names in lean/AquaProps/*.lean and seeded/*/meta.json."""
import json, os, re, glob
V = os.path.dirname(os.path.dirname(os.path.abspath(__file__)))
man = json.load(open(os.path.join(V, 'MANIFEST.json')))
known = json.load(open(os.path.join(V, 'known_findings.json')))

def theorems(pid):
    p = os.path.join(V, 'lean', 'AquaProps', pid + '.lean')
    if not os.path.exists(p): return []
    return re.findall(r'^theorem\s+(' + pid + r'_\w+)', open(p).read(), re.M)

def cell(s): return s.replace('|', '\\|').replace('\n', ' ')

rows = ['| property | state | theorems (partial ones end in `_partial`) | technique |', '|---|---|---|---|']
claimed = {c['property_id']: c for c in man['checks']}
for i in range(1, 29):
    pid = f'C{i:02d}'
    if pid in claimed:
        th = theorems(pid)
        part = [t for t in th if t.endswith('_partial')]
        rows.append(f"| {pid} | claimed ({len(th)} theorems, {len(part)} partial) | {cell(', '.join(th))} | {cell(claimed[pid]['technique'])} |")
    else:
        na = next((x for x in man['not_applicable'] if x['property_id'] == pid), {})
        rows.append(f"| {pid} | not claimed | | {cell(na.get('reason', ''))} |")
status = '\n'.join(rows)

frows = ['| property | kind | key / commit | what |', '|---|---|---|---|']
for k in known:
    frows.append(f"| {k['property']} | {k['kind']} | {cell(k.get('match') or k.get('commit', ''))} | {cell(k.get('what', ''))[:600]} |")
findings = '\n'.join(frows)

srows = ['| seeded change | property | what it needs to manifest | caught by (quick tier) |', '|---|---|---|---|']
for d in sorted(glob.glob(os.path.join(V, 'seeded', 'C*'))):
    mp = os.path.join(d, 'meta.json')
    if not os.path.exists(mp): continue
    m = json.load(open(mp))
    srows.append(f"| {os.path.basename(d)} | {m.get('property', '')} | {cell(str(m.get('needs_to_manifest', '')))[:300]} | {cell(str(m.get('caught_by', 'see meta.json')))[:300]} |")
seeds = '\n'.join(srows)

p = os.path.join(V, 'DESIGN.md')
s = open(p).read()
for name, body in [('status', status), ('findings', findings), ('seeds', seeds)]:
    b, e = f'<!-- BEGIN GENERATED:{name} -->', f'<!-- END GENERATED:{name} -->'
    if b in s:
        s = s[:s.index(b) + len(b)] + '\n' + body + '\n' + s[s.index(e):]
open(p, 'w').write(s)
print('DESIGN.md tables refreshed')
