#!/bin/sh
# usage: try_seed.sh <patch> <tier> <seed> <prop...> : applies a seeded patch to /repo, runs the given harness properties, reverts
PATCH=$1; TIER=$2; SEED=$3; shift 3
git -C /repo apply "$PATCH" || exit 2
(cd /verif/harness && cargo build --offline 2>&1 | grep -E "^error" -A6)
for p in "$@"; do
  /verif/harness/target/debug/aquaharness $p $TIER $SEED /verif/lean/.lake/build/bin/aquadrv /tmp/s_$p.json >/dev/null 2>&1
  python3 - $p <<'PY'
import json,sys
p=sys.argv[1]
try: r=json.load(open(f'/tmp/s_{p}.json'))
except Exception as e: print(p,'NO REPORT',e); sys.exit()
print(p, 'evals',r['evaluations'],'oracle_fails', r['stats'].get('oracle_failures',0), 'disagree', r['stats'].get('disagreements',0), 'panic', r.get('harness_panic'))
for d in (r['oracle_failures'][:1]+r['disagreements'][:1]): print('    ', (d.get('why') or json.dumps(d))[:260])
PY
done
git -C /repo checkout -- .
(cd /verif/harness && cargo build --offline 2>&1 | grep -E "^error" -A6)
