#!/usr/bin/env python3
"""usage: integrate_files.py <ID>
For builder copies that were rebased by rsync (their git HEAD is stale): copy every file that exists in the copy but not in
/verif (model / proofs / driver / harness / tools / sites), and show what differs in files that exist on both sides."""
import os, sys, shutil, filecmp, subprocess
ID = sys.argv[1]
SRC, DST = f'/tmp/dev_{ID}/verif', '/verif'
ROOTS = ['lean/Aqua', 'lean/AquaProps', 'lean/AquaDrv', 'harness/src', 'tools', 'sites', 'bin', 'findings']
SKIP = ('/.lake/', '/target/', '__pycache__')
new, differ = [], []
for r in ROOTS:
    for d, _, files in os.walk(os.path.join(SRC, r)):
        if any(s in d + '/' for s in SKIP): continue
        for f in files:
            a = os.path.join(d, f); rel = os.path.relpath(a, SRC); b = os.path.join(DST, rel)
            if not os.path.exists(b):
                os.makedirs(os.path.dirname(b), exist_ok=True); shutil.copy2(a, b); new.append(rel)
            elif not filecmp.cmp(a, b, shallow=False): differ.append(rel)
for rel in ['lean/Aqua.lean', 'lean/AquaProps.lean', 'lean/Main.lean', 'known_findings.json', 'harness/Cargo.toml']:
    a, b = os.path.join(SRC, rel), os.path.join(DST, rel)
    if os.path.exists(a) and not filecmp.cmp(a, b, shallow=False): differ.append(rel)
print('copied new files:'); [print('  ', x) for x in new]
print('files that differ (merge by hand):'); [print('  ', x) for x in differ]
