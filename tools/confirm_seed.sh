#!/bin/sh
# usage: confirm_seed.sh <ID>  — confirms a seeded change in the agent's scratch worktree /tmp/seed_<ID>:
#   demo fails with the patch, passes without; stable tests pass with the patch.
ID=$1; WT=/tmp/seed_$ID; OUT=/tmp/seed_${ID}_out
cd $WT || exit 2
git checkout -q -- . && git apply $OUT/patch.diff || { echo "patch does not apply"; exit 2; }
(cd $OUT/demo && CARGO_NET_OFFLINE=true cargo run --offline >$OUT/confirm_with.log 2>&1; echo "demo with patch: exit $?")
git checkout -q -- .
(cd $OUT/demo && CARGO_NET_OFFLINE=true cargo run --offline >$OUT/confirm_without.log 2>&1; echo "demo without patch: exit $?")
git apply $OUT/patch.diff
CARGO_TARGET_DIR=$WT/target CARGO_NET_OFFLINE=true cargo test --workspace --offline --no-fail-fast >$OUT/confirm_test.log 2>&1
python3 - "$OUT/confirm_test.log" <<'PY'
import json, re, sys
stable = json.load(open('/root/.vp/BASELINE.json'))['stable_pass']
log = open(sys.argv[1], errors='replace').read()
ok = set(re.findall(r'test ([\w:]+) \.\.\. ok', log)) | set(re.findall(r'test ([\w:]+) \.\.\. [^\n]*?ok\n', log))
failed = set(re.findall(r'test ([\w:]+) \.\.\. FAILED', log))
missing, bad = [], []
for s in stable:
    name = s.split('::', 1)[1]
    if name in failed: bad.append(s)
    elif name not in ok and not re.search(r'test ' + re.escape(name) + r' \.\.\.', log): missing.append(s)
print(f"stable tests: {len(stable)} listed, failed with patch: {len(bad)}, not found in log: {len(missing)}")
for s in bad[:10]: print("   FAILED", s)
for s in missing[:10]: print("   MISSING", s)
print("compile errors:", len(re.findall(r'^error(\[|:)', log, re.M)))
PY
