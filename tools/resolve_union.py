#!/usr/bin/env python3
"""Resolve git conflict markers in append-only files by keeping both sides (ours first, then theirs, de-duplicated).
For known_findings.json the two sides are merged as JSON arrays."""
import sys, re, json, subprocess
for path in sys.argv[1:]:
    s = open(path).read()
    if '<<<<<<<' not in s: continue
    if path.endswith('known_findings.json'):
        ours = subprocess.run(['git', 'show', ':2:' + path], capture_output=True, text=True).stdout
        theirs = subprocess.run(['git', 'show', ':3:' + path], capture_output=True, text=True).stdout
        a, b = json.loads(ours), json.loads(theirs)
        keys = {json.dumps(x, sort_keys=True) for x in a}
        for x in b:
            if json.dumps(x, sort_keys=True) not in keys: a.append(x)
        open(path, 'w').write(json.dumps(a, indent=1, ensure_ascii=False) + '\n')
        continue
    out = []
    pat = re.compile(r'<<<<<<< [^\n]*\n(.*?)(?:\|\|\|\|\|\|\| [^\n]*\n.*?)?=======\n(.*?)>>>>>>> [^\n]*\n', re.S)
    def repl(m):
        ours, theirs = m.group(1), m.group(2)
        # import / module lists: de-duplicate lines; any other file: keep both sides in full
        if path.endswith(('Aqua.lean', 'AquaProps.lean', 'mod.rs')):
            lines = ours.splitlines(keepends=True)
            for l in theirs.splitlines(keepends=True):
                if l not in lines: lines.append(l)
            return ''.join(lines)
        return ours + theirs
    s = pat.sub(repl, s)
    open(path, 'w').write(s)
    print('resolved', path)
